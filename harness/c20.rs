//! C20 — length-prefixed record streams decode identically under every chunking; varint trio agrees.
//! Anchors: /repo/src/common/protobuf_utils.rs (write_varint64, read_varint64[_offset],
//! inner_sizeof_varint, MessageBufReader).
#![allow(dead_code, unused_imports, clippy::all)]
use super::support::*;
use crate::common::protobuf_utils::{
    inner_sizeof_varint, read_varint64, read_varint64_offset, write_varint64, MessageBufReader,
};

// ---- K20.1 varint trio, all u64 -------------------------------------------------------------
/// size function agrees with the writer, for every u64
pub fn k20_1a_size<S: Src>(s: &mut S) {
    let v = s.u64();
    let b = write_varint64(v);
    let n = b.len();
    vcover!(s, n == 1, "varint on 1 byte");
    vcover!(s, n == 2, "varint on 2 bytes");
    vcover!(s, n == 3, "varint on 3 bytes");
    vcover!(s, n == 5, "varint on 5 bytes");
    vcover!(s, n == 10, "varint on 10 bytes");
    vcheck!(s, n == inner_sizeof_varint(v), "write_varint64 length == inner_sizeof_varint");
    std::mem::forget(b);
}

/// copy the writer's output into a fixed window whose remaining bytes are 0xff (an over-read
/// would change the value or run into the 10-byte error). Reading the Vec directly makes CBMC
/// reason about a heap object of symbolic size that may have been reallocated (>8 min); the window
/// costs 20 s and loses nothing: the bytes and their count are the writer's.
fn window_of(b: &Vec<u8>, at: usize) -> [u8; 16] {
    let n = b.len();
    let mut buf = [0xffu8; 16];
    let mut i = 0;
    while i < 10 {
        if i < n {
            buf[at + i] = b[i];
        }
        i += 1;
    }
    buf
}

/// reader inverts writer, for every u64
pub fn k20_1b_roundtrip<S: Src>(s: &mut S) {
    let v = s.u64();
    let b = write_varint64(v);
    let buf = window_of(&b, 0);
    match read_varint64(&buf) {
        Ok(r) => vcheck!(s, r == v, "read_varint64(write_varint64(v)) == v"),
        Err(e) => {
            std::mem::forget(e);
            vcheck!(s, false, "read_varint64 fails on writer output")
        }
    }
    std::mem::forget(b);
}

/// reader at an offset inside a padded window (how read_indexs / read_len call it), every u64;
/// writer output has the continuation-bit shape
pub fn k20_1c_offset<S: Src>(s: &mut S) {
    let v = s.u64();
    let b = write_varint64(v);
    let n = b.len();
    let buf = window_of(&b, 3);
    match read_varint64_offset(&buf, 3) {
        Ok(r) => vcheck!(s, r == v, "read_varint64_offset(pad ++ write_varint64(v), 3) == v"),
        Err(e) => {
            std::mem::forget(e);
            vcheck!(s, false, "read_varint64_offset fails on writer output")
        }
    }
    let mut i = 0;
    while i < 10 {
        if i + 1 < n {
            vcheck!(s, buf[3 + i] & 0x80 != 0, "non-final varint byte has continuation bit");
        } else if i + 1 == n {
            vcheck!(s, buf[3 + i] & 0x80 == 0, "final varint byte has no continuation bit");
        }
        i += 1;
    }
    std::mem::forget(b);
}

// ---- K20.2 reader never over-reads a 10-byte window ------------------------------------------
pub fn k20_2_reader_window<S: Src>(s: &mut S) {
    let mut w = [0u8; 10];
    let mut i = 0;
    while i < 10 {
        w[i] = s.u8();
        i += 1;
    }
    // must not panic (index out of bounds) for any content of a 10-byte window
    let r = read_varint64(&w);
    vcover!(s, r.is_err(), "ten continuation bytes rejected");
    match r {
        Ok(v) => {
            let n = inner_sizeof_varint(v);
            vcheck!(s, n <= 10, "size of decoded value within 10");
            // the low seven bits of the value are the low seven bits of the first byte
            vcheck!(s, (v & 0x7f) as u8 == w[0] & 0x7f, "first group decoded from first byte");
        }
        // drop glue of anyhow::Error (boxed dyn vtable) is a known CBMC sink and not the subject
        Err(e) => std::mem::forget(e),
    }
}

// ---- K20.5 buffer compaction: the unread remainder moves to the front unchanged -----------------
/// `append_next_buf` first moves the unread bytes [start, end) to the front of the buffer, then appends the next chunk behind
/// them. For every buffer content, every read position and every next chunk (length 0..=4): afterwards the buffer holds
/// exactly old[start..] ++ chunk - whatever the relation between the bytes already consumed and the bytes still unread.
pub fn k20_5_compaction<S: Src>(s: &mut S) {
    const B: usize = 8;
    let mut old = [0u8; B];
    let mut i = 0;
    while i < B {
        old[i] = s.u8();
        i += 1;
    }
    let start = s.u8() as usize;
    s.assume(start <= B);
    let mut chunk = [0u8; 4];
    i = 0;
    while i < 4 {
        chunk[i] = s.u8();
        i += 1;
    }
    let clen = s.u8() as usize;
    s.assume(clen <= 4 && clen <= start);
    let mut v = Vec::with_capacity(B);
    i = 0;
    while i < B {
        v.push(old[i]);
        i += 1;
    }
    let mut r = MessageBufReader::new_with_data(v, start);
    r.append_next_buf(&chunk[..clen]);
    let rest = B - start;
    vcover!(s, start > 0 && rest > start, "unread remainder longer than the consumed prefix");
    vcover!(s, start > 0 && rest > 0 && rest <= start, "unread remainder not longer than the consumed prefix");
    vcover!(s, start == 0, "nothing consumed");
    i = 0;
    while i < B {
        if i < rest {
            vcheck!(s, r.buf[i] == old[start + i], "buffer compaction changes the unread remainder of the stream");
        } else if i < rest + clen {
            vcheck!(s, r.buf[i] == chunk[i - rest], "the next chunk is not appended right behind the unread remainder");
        }
        i += 1;
    }
    std::mem::forget(r);
}

// ---- reference decoder -------------------------------------------------------------------------
pub const MAXREC: usize = 6;

pub struct Oracle {
    pub n: usize,
    pub start: [usize; MAXREC],
    pub end: [usize; MAXREC],
    /// offset at which decoding stops (first zero length, truncated tail or end of stream)
    pub stop: usize,
    /// the stream respects the writer's format (canonical 1-byte length prefixes, at most one
    /// truncated tail)
    pub well_formed: bool,
}

/// Records until the first zero length / truncated tail. Streams here are < 128 bytes, hence every
/// complete record has a one-byte length prefix; a prefix with the continuation bit can only start
/// a truncated tail.
pub fn oracle<const N: usize>(st: &[u8; N]) -> Oracle {
    let mut o = Oracle {
        n: 0,
        start: [0; MAXREC],
        end: [0; MAXREC],
        stop: 0,
        well_formed: true,
    };
    let mut p = 0usize;
    let mut k = 0;
    while k < MAXREC + 1 {
        if p >= N {
            break;
        }
        let b = st[p];
        if b == 0 {
            break;
        }
        if b & 0x80 != 0 {
            // only legal as the beginning of a truncated final record: canonical two-byte prefix
            if p + 1 < N {
                let b1 = st[p + 1];
                if b1 == 0 || b1 & 0x80 != 0 {
                    o.well_formed = false;
                }
            }
            break;
        }
        let total = 1 + b as usize;
        if p + total > N {
            break;
        }
        if k == MAXREC {
            o.well_formed = false;
            break;
        }
        o.start[k] = p;
        o.end[k] = p + total;
        o.n = k + 1;
        p += total;
        k += 1;
    }
    o.stop = p;
    o
}

/// which consumer protocol of /repo drives the reader
#[derive(Clone, Copy, PartialEq)]
pub enum Proto {
    /// raftlog move_to_index_by_count: append; drain; `if reader.is_empty() { break }`
    LogScan,
    /// SnapshotReader::read_record / read_records / load_file_map: drain until None, read more
    Drain,
}

/// K20.3 / K20.4: chunking invariance of MessageBufReader. Stream = N arbitrary bytes constrained to
/// the writer's format; delivered in reads of C bytes (the consumers read fixed-size chunks; the last
/// read is short), into a reader whose buffer starts with B bytes (public small-buffer constructor;
/// B == C is the shape of the real 1024/1024 configuration, B > C exercises the stale-byte path,
/// a record longer than B exercises growth). Sizes are concrete per instantiation (symbolic
/// allocation sizes make CBMC model every Vec as an array of symbolic extent: >10 min), contents and
/// therefore record boundaries are symbolic: every placement of record ends relative to chunk ends
/// is covered.
pub fn chunking<S: Src, const N: usize, const C: usize, const B: usize>(s: &mut S, proto: Proto) {
    let mut st = [0u8; N];
    let mut i = 0;
    while i < N {
        st[i] = s.u8();
        i += 1;
    }
    let o = oracle::<N>(&st);
    s.assume(o.well_formed);

    let mut reader = MessageBufReader::new_with_data(vec![0u8; B], B);
    let mut got = 0usize; // records returned so far
    let mut pos = 0usize; // bytes covered by returned records
    let mut stopped_early = false;
    let mut boundary_with_more = false;
    let probe = s.usize(); // one symbolic byte position per record stands for all of them
    let mut a = 0usize;
    while a < N {
        let b = if a + C < N { a + C } else { N };
        reader.append_next_buf(&st[a..b]);
        let mut guard = 0;
        loop {
            let v = match reader.next_message_vec() {
                Some(v) => v,
                None => break,
            };
            vcheck!(s, got < o.n, "reader returned a record the stream does not contain");
            if got < o.n {
                let (rs, re) = (o.start[got], o.end[got]);
                vcheck!(s, v.len() == re - rs, "record length differs from reference decoder");
                if v.len() == re - rs && probe < v.len() {
                    vcheck!(s, v[probe] == st[rs + probe], "record bytes differ from stream bytes");
                }
                pos = re;
            }
            got += 1;
            guard += 1;
            if guard > MAXREC {
                vcheck!(s, false, "reader does not make progress");
                break;
            }
        }
        if pos == b && b < N && st[b] != 0 {
            // every delivered byte consumed exactly at a read boundary while another record follows: the place
            // where "nothing buffered" must not be mistaken for the end marker
            boundary_with_more = true;
        }
        if proto == Proto::LogScan && reader.is_empty() {
            // the consumer treats this as end-of-log: legitimate only if the stream really has a zero
            // length (or nothing at all) at the position reached
            let at_end = pos >= N || st[pos] == 0;
            if !at_end {
                stopped_early = true;
                if pos == b {
                    s.tag("record-ends-at-chunk-end");
                }
            }
            break;
        }
        a = b;
    }
    vcover!(s, o.n >= 2, "at least two complete records");
    vcover!(s, o.n >= 1 && o.stop < N && st[o.stop] == 0, "records then zero length then stale tail");
    vcover!(s, o.n >= 2 && o.end[0] == C, "record ends exactly at chunk end and another follows");
    vcover!(s, boundary_with_more, "every delivered byte consumed at a read boundary while another record follows");
    vcheck!(s, !stopped_early, "end-of-stream reported although a non-zero length follows (stops earlier than the first zero length)");
    if !stopped_early {
        vcheck!(s, got == o.n, "number of records differs from reference decoder");
    }
    std::mem::forget(reader);
}

pub fn k20_3_drain_n8_c4_b8<S: Src>(s: &mut S) {
    chunking::<S, 8, 4, 8>(s, Proto::Drain)
}
pub fn k20_3_drain_n8_c4_b4<S: Src>(s: &mut S) {
    chunking::<S, 8, 4, 4>(s, Proto::Drain)
}
pub fn k20_3_drain_n9_c3_b4<S: Src>(s: &mut S) {
    chunking::<S, 9, 3, 4>(s, Proto::Drain)
}
pub fn k20_4_logscan_n8_c4_b8<S: Src>(s: &mut S) {
    chunking::<S, 8, 4, 8>(s, Proto::LogScan)
}
pub fn k20_4_logscan_n8_c4_b4<S: Src>(s: &mut S) {
    chunking::<S, 8, 4, 4>(s, Proto::LogScan)
}
pub fn k20_4_logscan_n9_c3_b4<S: Src>(s: &mut S) {
    chunking::<S, 9, 3, 4>(s, Proto::LogScan)
}

#[cfg(kani)]
mod proofs {
    use super::*;
    #[kani::proof]
    #[kani::unwind(11)]
    fn k20_1a_size() {
        super::k20_1a_size(&mut KSrc)
    }
    macro_rules! p {
        ($n:ident, $u:literal) => {
            #[kani::proof]
            #[kani::unwind($u)]
            #[kani::stub(std::backtrace::Backtrace::capture, bt_stub)]
            #[kani::stub(<anyhow::Error as std::ops::Drop>::drop, anyhow_drop_stub)]
            fn $n() {
                super::$n(&mut KSrc)
            }
        };
    }
    p!(k20_1b_roundtrip, 11);
    p!(k20_1c_offset, 11);
    p!(k20_2_reader_window, 12);
    p!(k20_5_compaction, 10);
    p!(k20_3_drain_n8_c4_b8, 10);
    p!(k20_3_drain_n8_c4_b4, 10);
    p!(k20_3_drain_n9_c3_b4, 11);
    p!(k20_4_logscan_n8_c4_b8, 10);
    p!(k20_4_logscan_n8_c4_b4, 10);
    p!(k20_4_logscan_n9_c3_b4, 11);
}

#[cfg(not(kani))]
pub fn replay(name: &str, s: &mut RSrc) -> bool {
    match name {
        "k20_1a_size" => k20_1a_size(s),
        "k20_1b_roundtrip" => k20_1b_roundtrip(s),
        "k20_1c_offset" => k20_1c_offset(s),
        "k20_2_reader_window" => k20_2_reader_window(s),
        "k20_5_compaction" => k20_5_compaction(s),
        "k20_3_drain_n8_c4_b8" => k20_3_drain_n8_c4_b8(s),
        "k20_3_drain_n8_c4_b4" => k20_3_drain_n8_c4_b4(s),
        "k20_3_drain_n9_c3_b4" => k20_3_drain_n9_c3_b4(s),
        "k20_4_logscan_n8_c4_b8" => k20_4_logscan_n8_c4_b8(s),
        "k20_4_logscan_n8_c4_b4" => k20_4_logscan_n8_c4_b4(s),
        "k20_4_logscan_n9_c3_b4" => k20_4_logscan_n9_c3_b4(s),
        _ => return false,
    }
    true
}
