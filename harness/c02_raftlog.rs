//! C02 / C03 kernel obligations on the log file's index arithmetic.
//! Lives inside raft/filestore/raftlog/mod.rs (hook): InnerIdxDto, read_indexs,
//! get_file_index_by_log_index and get_start_index are private.
#![allow(dead_code, unused_imports, clippy::all)]
use super::*;
use crate::verif_harness::support::*;

#[cfg(not(kani))]
#[path = "/verif/harness/hist_log.rs"]
pub mod hist_log;

/// a LogInnerManager value whose in-memory index state is given; the file handles are real
/// (simfs under Kani, a temp file natively) but never touched by the functions under test
fn manager_with(indexs: Vec<InnerIdxDto>, start_index: u64, interval: u16, index_cursor: u64, msg_count: u64) -> LogInnerManager {
    let (data_file, index_file) = files();
    let mut header = LogIndexHeaderDo::new();
    header.first_index = start_index;
    header.index_interval = interval;
    LogInnerManager {
        data_file,
        index_file,
        header,
        indexs,
        start_index,
        index_cursor,
        file_len: LOG_DATA_BUF_SIZE,
        data_cursor: 4096,
        msg_count,
        last_term: 0,
        current_index_count: 0,
        need_seek_at_write: false,
        last_flush_index: start_index,
        split_off_index: start_index,
    }
}

/// under Kani the simfs File is a plain handle number: handle 0, never used by the functions under test, never dropped
/// (opening real simfs files here made CBMC run out of memory: measured)
#[cfg(kani)]
fn files() -> (tokio::fs::File, tokio::fs::File) {
    unsafe { (std::mem::zeroed(), std::mem::zeroed()) }
}
#[cfg(not(kani))]
fn files() -> (tokio::fs::File, tokio::fs::File) {
    let path = scratch_path();
    let open = || async {
        OpenOptions::new()
            .read(true)
            .write(true)
            .create(true)
            .open(&path)
            .await
            .unwrap()
    };
    (run(open()), run(open()))
}

#[cfg(kani)]
fn scratch_path() -> String {
    String::from("l")
}
#[cfg(not(kani))]
fn scratch_path() -> String {
    let d = std::env::temp_dir().join(format!("verif-c02-{}-{}", std::process::id(), crate::now_millis()));
    std::fs::create_dir_all(&d).ok();
    d.join("l").to_string_lossy().into_owned()
}

/// index entries exactly as write() creates them: entry i+1 at log_index + interval, file offset
/// advanced by d[i]; the index area holds write_varint64(d[i]) back to back from byte 32
fn build_indexs<S: Src, const K: usize>(s: &mut S) -> (Vec<InnerIdxDto>, [u64; K], u64, u16, u64) {
    let start_index = s.u64();
    s.assume(start_index < (1u64 << 40));
    let interval = s.u16();
    s.assume(interval >= 1 && interval <= 128);
    let mut d = [0u64; K];
    let mut indexs = Vec::with_capacity(K + 1);
    indexs.push(InnerIdxDto { log_index: start_index, file_index: 4096 });
    let mut cursor = LOG_INDEX_HEADER_LEN;
    let mut fi = 4096u64;
    let mut i = 0;
    while i < K {
        d[i] = s.u64();
        // 128 records of at least 4 bytes each, a data file below 2 GB
        s.assume(d[i] >= 4 && d[i] < (1u64 << 31));
        fi += d[i];
        indexs.push(InnerIdxDto { log_index: start_index + (i as u64 + 1) * interval as u64, file_index: fi });
        cursor += inner_sizeof_varint(d[i]) as u64;
        i += 1;
    }
    (indexs, d, start_index, interval, cursor)
}

/// K02.2 / K03.1: the rewind data strip_log_to takes from get_file_index_by_log_index
pub fn k02_2_rewind<S: Src, const K: usize>(s: &mut S) {
    let (indexs, d, start_index, interval, cursor) = build_indexs::<S, K>(s);
    let extra = s.u64();
    s.assume(extra < interval as u64);
    let msg_count = K as u64 * interval as u64 + extra;
    let q = s.u64();
    s.assume(q >= start_index && q < start_index + msg_count);
    let m = manager_with(indexs, start_index, interval, cursor, msg_count);
    let r = m.get_file_index_by_log_index(q);
    match r {
        Ok((item, file_index_len, pop_count)) => {
            // entry that contains q
            let pos = (q - start_index) / interval as u64; // 0..=K
            let pos = if pos > K as u64 { K as u64 } else { pos };
            vcheck!(s, item.log_index == start_index + pos * interval as u64, "rewind entry is not the one containing the cut index");
            vcheck!(s, pop_count == K as u64 - pos, "number of popped index entries differs from the entries after the cut");
            // bytes those popped entries occupy in the index area, as write() emitted them
            let mut want = 0u64;
            let mut wide = false;
            let mut i = 0;
            while i < K {
                if (i as u64) >= pos {
                    let w = inner_sizeof_varint(d[i]) as u64;
                    want += w;
                    if w != inner_sizeof_varint(interval as u64) as u64 {
                        wide = true;
                    }
                }
                i += 1;
            }
            vcover!(s, pop_count >= 1 && want == pop_count, "popped entries all encoded on one byte");
            vcover!(s, pop_count >= 1 && want == 3 * pop_count, "popped entries all encoded on three bytes");
            vcover!(s, pop_count == 0, "cut inside the last interval");
            if wide {
                s.tag("index-delta-width-differs-from-interval-width");
            }
            vcheck!(s, file_index_len == want, "index cursor rewind differs from the bytes the popped entries occupy");
            vcheck!(s, cursor - file_index_len >= LOG_INDEX_HEADER_LEN, "index cursor rewound into the header");
        }
        Err(e) => {
            std::mem::forget(e);
            vcheck!(s, false, "no index entry found for an index inside the log");
        }
    }
    std::mem::forget(m);
}
pub fn k02_2_rewind_k1<S: Src>(s: &mut S) {
    k02_2_rewind::<S, 1>(s)
}
pub fn k02_2_rewind_k2<S: Src>(s: &mut S) {
    k02_2_rewind::<S, 2>(s)
}
pub fn k02_2_rewind_k3<S: Src>(s: &mut S) {
    k02_2_rewind::<S, 3>(s)
}

/// K02.3: read_indexs inverts what write() emits into the index area
pub fn k02_3_read_indexs<S: Src, const K: usize>(s: &mut S) {
    let (indexs, d, start_index, interval, cursor) = build_indexs::<S, K>(s);
    // index area as written: varints back to back, zero filled behind (init zero-fills the file);
    // 48 bytes stand for the 4064 of the real layout (the function takes the slice length from its
    // argument)
    let mut area = [0u8; 48];
    let mut off = 0usize;
    let mut i = 0;
    while i < K {
        let b = write_varint64(d[i]);
        let n = b.len();
        let mut j = 0;
        while j < 5 {
            if j < n {
                area[off + j] = b[j];
            }
            j += 1;
        }
        off += n;
        std::mem::forget(b);
        i += 1;
    }
    let first = InnerIdxDto { log_index: start_index, file_index: 4096 };
    match LogInnerManager::read_indexs(&area, first, interval as u64) {
        Ok((got, cur)) => {
            vcheck!(s, got.len() == K + 1, "number of index entries read back differs from the number written");
            vcheck!(s, cur + LOG_INDEX_HEADER_LEN == cursor, "index cursor read back differs from the cursor after writing");
            if got.len() == K + 1 {
                let p = s.usize();
                s.assume(p <= K);
                vcheck!(s, got[p].log_index == indexs[p].log_index, "log index of an entry read back differs");
                vcheck!(s, got[p].file_index == indexs[p].file_index, "file offset of an entry read back differs");
            }
            std::mem::forget(got);
        }
        Err(e) => {
            std::mem::forget(e);
            vcheck!(s, false, "read_indexs fails on what write() emitted");
        }
    }
    std::mem::forget(indexs);
}
pub fn k02_3_read_indexs_k2<S: Src>(s: &mut S) {
    k02_3_read_indexs::<S, 2>(s)
}
pub fn k02_3_read_indexs_k3<S: Src>(s: &mut S) {
    k02_3_read_indexs::<S, 3>(s)
}

/// K02.4: get_start_index returns the greatest entry at or below the requested index
pub fn k02_4_start_index<S: Src, const K: usize>(s: &mut S) {
    let (indexs, _d, start_index, interval, cursor) = build_indexs::<S, K>(s);
    let q = s.u64();
    s.assume(q < (1u64 << 41));
    let m = manager_with(indexs, start_index, interval, cursor, K as u64 * interval as u64);
    let e = m.get_start_index(q);
    if q >= start_index {
        let pos = (q - start_index) / interval as u64;
        let pos = if pos > K as u64 { K as u64 } else { pos };
        vcheck!(s, e.log_index == start_index + pos * interval as u64, "scan does not start at the greatest index entry <= start");
        vcheck!(s, e.log_index <= q, "scan starts after the requested index");
    } else {
        vcheck!(s, e.log_index == start_index, "scan for an index before the file does not start at its first entry");
    }
    vcover!(s, q > start_index + interval as u64, "start beyond the first interval");
    std::mem::forget(m);
}
pub fn k02_4_start_index_k3<S: Src>(s: &mut S) {
    k02_4_start_index::<S, 3>(s)
}

#[cfg(kani)]
mod proofs {
    use super::*;
    macro_rules! p {
        ($n:ident, $u:literal) => {
            #[kani::proof]
            #[kani::unwind($u)]
            #[kani::stub(std::backtrace::Backtrace::capture, bt_stub)]
            #[kani::stub(<anyhow::Error as std::ops::Drop>::drop, anyhow_drop_stub)]
            #[kani::stub(std::fmt::format, fmt_stub)]
            fn $n() {
                super::$n(&mut KSrc)
            }
        };
    }
    p!(k02_2_rewind_k1, 12);
    p!(k02_2_rewind_k2, 12);
    p!(k02_2_rewind_k3, 12);
    p!(k02_3_read_indexs_k2, 12);
    p!(k02_3_read_indexs_k3, 12);
    p!(k02_4_start_index_k3, 12);
}

#[cfg(not(kani))]
pub fn replay(name: &str, s: &mut RSrc) -> bool {
    match name {
        "k02_2_rewind_k1" => k02_2_rewind_k1(s),
        "k02_2_rewind_k2" => k02_2_rewind_k2(s),
        "k02_2_rewind_k3" => k02_2_rewind_k3(s),
        "k02_3_read_indexs_k2" => k02_3_read_indexs_k2(s),
        "k02_3_read_indexs_k3" => k02_3_read_indexs_k3(s),
        "k02_4_start_index_k3" => k02_4_start_index_k3(s),
        _ => return false,
    }
    true
}
