//! Native twin of engine-S obligation s09_6_search_parameters (rs2smt/c09search.py): the real parameter builders of the
//! OpenAPI / console config listings (`ConfigWebParams::{build_search_param, build_like_search_param}`,
//! `ConfigQueryParam` as `OpsConfigQueryListRequest::to_param` fills it) and the real `TenantIndex`.
//! A case names the entry point, the request parameters and the listing the store holds for them; mode "violation": a
//! differing listing confirms the counterexample, mode "validate": the listing must be the expected one.
#![allow(dead_code, unused_imports, clippy::all)]
use crate::config::config_index::{ConfigQueryParam, TenantIndex};
use crate::config::core::ConfigKey;
use crate::config::ConfigUtils;
use crate::openapi::config::api::ConfigWebParams;
use std::sync::Arc;

fn one(c: &serde_json::Value) -> Result<(), String> {
    let mut index = TenantIndex::new();
    for k in c["keys"].as_array().cloned().unwrap_or_default() {
        index.insert_config(ConfigKey::new(k[2].as_str().unwrap_or(""), k[1].as_str().unwrap_or(""), k[0].as_str().unwrap_or("")));
    }
    let s = |n: &str| c[n].as_str().map(|x| x.to_string());
    let paged = c["paged"].as_bool().unwrap_or(false);
    let entry = c["entry"].as_str().unwrap_or("");
    let mut param = if entry == "console" {
        let limit = if paged { 1 } else { 0xffff_ffff };
        let mut p = ConfigQueryParam { limit, offset: if paged { 1 } else { 0 }, like_group: s("group"), like_data_id: s("dataId"), ..Default::default() };
        p.tenant = Some(Arc::new(match s("tenant") {
            Some(t) => ConfigUtils::default_tenant(t),
            None => "".to_owned(),
        }));
        p
    } else {
        let w = ConfigWebParams {
            data_id: s("dataId"),
            group: s("group"),
            tenant: s("tenant"),
            content: None,
            desc: None,
            r#type: None,
            search: Some(entry.to_string()),
            page_no: if paged { Some(2) } else { None },
            page_size: if paged { Some(1) } else { None },
        };
        if entry == "accurate" {
            w.build_search_param()
        } else {
            w.build_like_search_param()
        }
    };
    param.namespace_privilege = Default::default();
    let (total, list) = index.query_config_page(&param);
    let got: Vec<(String, String, String)> = list.iter().map(|k| (k.tenant.to_string(), k.group.to_string(), k.data_id.to_string())).collect();
    let mut want: Vec<(String, String, String)> = c["expected"]
        .as_array()
        .cloned()
        .unwrap_or_default()
        .iter()
        .map(|k| (k[0].as_str().unwrap_or("").to_string(), k[1].as_str().unwrap_or("").to_string(), k[2].as_str().unwrap_or("").to_string()))
        .collect();
    let want_total = want.len();
    if paged {
        want = want.into_iter().skip(1).take(1).collect();
    }
    if got != want || total != want_total {
        return Err(format!(
            "listing ({}, tenant {:?}, group {:?}, dataId {:?}{}) returns {:?} (total {}); the store holds {:?} (total {})",
            entry, s("tenant"), s("group"), s("dataId"), if paged { ", page 2 of size 1" } else { "" }, got, total, want, want_total
        ));
    }
    Ok(())
}

pub fn replay_file() {
    let path = std::env::var("VERIF_REPLAY").expect("VERIF_REPLAY not set");
    let txt = std::fs::read_to_string(&path).expect("replay file unreadable");
    let v: serde_json::Value = serde_json::from_str(&txt).expect("replay file not json");
    let mode = v["mode"].as_str().unwrap_or("validate").to_string();
    let cases = v["histories"].as_array().cloned().unwrap_or_default();
    for (i, c) in cases.iter().enumerate() {
        if let Err(msg) = one(c) {
            if mode == "violation" {
                panic!("VERIF-REPLAY-CHECK-FAILED: {}", msg);
            }
            panic!("VERIF-VALIDATE-MISMATCH case {}: the real code breaks an expectation the encoding discharged: {}", i + 1, msg);
        }
    }
    println!("VERIF-REPLAY-PASSED covers=[] cases={}", cases.len());
}
