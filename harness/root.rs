//! Root of the solver harnesses. Included from /repo/src/lib.rs by a one-line hook that is inert
//! unless cfg(kani) (set by Kani) or cfg(rnacos_verif) (native replay build) is on.
#![allow(dead_code, unused_imports, clippy::all)]

#[path = "/verif/harness/support.rs"]
pub mod support;

#[path = "/verif/harness/c20.rs"]
pub mod c20;

#[path = "/verif/harness/c19.rs"]
pub mod c19;

#[path = "/verif/harness/cweb.rs"]
pub mod cweb;

#[path = "/verif/harness/cweb_e2e.rs"]
pub mod cweb_e2e;

#[cfg(not(kani))]
#[path = "/verif/harness/hist_service.rs"]
pub mod hist_service;

#[cfg(not(kani))]
#[path = "/verif/harness/hist_naming.rs"]
pub mod hist_naming;

#[cfg(all(not(kani), test))]
#[path = "/verif/harness/hist_store.rs"]
pub mod hist_store;

#[cfg(all(not(kani), test))]
#[path = "/verif/harness/hist_config.rs"]
pub mod hist_config;

#[cfg(all(not(kani), test))]
#[path = "/verif/harness/hist_index.rs"]
pub mod hist_index;

#[cfg(all(not(kani), test))]
#[path = "/verif/harness/hist_user.rs"]
pub mod hist_user;

#[cfg(all(not(kani), test))]
#[path = "/verif/harness/hist_console.rs"]
pub mod hist_console;

#[cfg(all(not(kani), test))]
#[path = "/verif/harness/hist_cache.rs"]
pub mod hist_cache;

#[cfg(all(not(kani), test))]
#[path = "/verif/harness/hist_search.rs"]
pub mod hist_search;

#[cfg(all(not(kani), test))]
#[path = "/verif/harness/hist_mcp.rs"]
pub mod hist_mcp;

#[path = "/verif/harness/c05.rs"]
pub mod c05;

#[path = "/verif/harness/c01.rs"]
pub mod c01;

/// Native replay entry: `VERIF_REPLAY=<file.json> cargo test --lib verif_replay_entry`
/// file = {"module": "c20", "harness": "k20_1_varint_trio", "vals": [[1,0,..],..]}
#[cfg(all(not(kani), test))]
mod replay_entry {
    use super::support::RSrc;
    #[test]
    fn verif_replay_entry() {
        let path = std::env::var("VERIF_REPLAY").expect("VERIF_REPLAY not set");
        let txt = std::fs::read_to_string(&path).expect("replay file unreadable");
        let v: serde_json::Value = serde_json::from_str(&txt).expect("replay file not json");
        let module = v["module"].as_str().unwrap_or("").to_string();
        let harness = v["harness"].as_str().unwrap_or("").to_string();
        let vals: Vec<Vec<u8>> = v["vals"]
            .as_array()
            .map(|a| {
                a.iter()
                    .map(|x| {
                        x.as_array()
                            .map(|b| b.iter().map(|y| y.as_u64().unwrap_or(0) as u8).collect())
                            .unwrap_or_default()
                    })
                    .collect()
            })
            .unwrap_or_default();
        if module == "cweb" {
            super::cweb::replay_file();
            return;
        }
        if module == "index" {
            super::hist_index::replay_file();
            return;
        }
        if module == "config" {
            super::hist_config::replay_file();
            return;
        }
        if module == "store" {
            super::hist_store::replay_file();
            return;
        }
        if module == "c11actor" {
            super::hist_naming::replay_file();
            return;
        }
        if module == "console" {
            super::hist_console::replay_file();
            return;
        }
        if module == "mcp" {
            super::hist_mcp::replay_file();
            return;
        }
        if module == "search" {
            super::hist_search::replay_file();
            return;
        }
        if module == "cache" {
            super::hist_cache::replay_file();
            return;
        }
        if module == "user" {
            super::hist_user::replay_file();
            return;
        }
        if module == "c11index" {
            crate::naming::core::verif_priv::hist::replay_file();
            return;
        }
        if module == "c11" {
            super::hist_service::replay_file();
            return;
        }
        if module == "c03" {
            crate::raft::filestore::raftlog::verif_priv::hist_log::replay_file();
            return;
        }
        if module == "cweb_e2e" {
            super::cweb_e2e::replay_file();
            return;
        }
        let mut s = RSrc::new(vals);
        let known = match module.as_str() {
            "c20" => super::c20::replay(&harness, &mut s),
            "c19" => super::c19::replay(&harness, &mut s),
            "c05" => super::c05::replay(&harness, &mut s),
            "c01" => super::c01::replay(&harness, &mut s),
            "c02" => crate::raft::filestore::raftlog::verif_priv::replay(&harness, &mut s),
            "c14" => crate::naming::cluster::node_manage::verif_priv::replay(&harness, &mut s),
            _ => false,
        };
        if !known {
            panic!("VERIF-REPLAY-UNKNOWN-HARNESS {}::{}", module, harness);
        }
        println!("VERIF-REPLAY-PASSED covers={:?}", s.covers);
    }
}
