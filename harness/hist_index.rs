//! Native replay of engine-S request histories of the raft index manager (C05 s05_2_actor_history, rs2smt/c05.py).
//! A real `RaftIndexManager` actor is started on a temp directory and sent the history's `RaftIndexRequest`s; after every
//! request the state it reports in the same process (LoadIndexInfo) and, at the end, the state a second actor reports after a
//! restart on a copy of the directory must be the last acknowledged save of each field.
//!   mode "violation": an oracle failure confirms the counterexample; mode "validate": the oracle must hold (translator validation).
#![allow(dead_code, unused_imports, clippy::all)]
use crate::raft::filestore::log::LogRange;
use crate::raft::filestore::raftindex::{RaftIndexManager, RaftIndexRequest, RaftIndexResponse};
use actix::prelude::*;
use std::collections::{BTreeMap, HashMap};
use std::sync::Arc;
use std::time::Duration;

enum Fail {
    Property(String),
    Model(String),
}

#[derive(Default, Debug, Clone, PartialEq)]
struct Ref {
    term: u64,
    vote: u64,
    member: Vec<u64>,
    mac: Vec<u64>,
    addrs: BTreeMap<u64, String>,
    logs: Vec<u64>,
    applied: u64,
}

async fn observe(a: &Addr<RaftIndexManager>) -> Result<Ref, String> {
    match a.send(RaftIndexRequest::LoadIndexInfo).await {
        Ok(Ok(RaftIndexResponse::RaftIndexInfo { raft_index, last_applied_log })) => Ok(Ref {
            term: raft_index.current_term,
            vote: raft_index.voted_for,
            member: raft_index.member.clone(),
            mac: raft_index.member_after_consensus.clone(),
            addrs: raft_index.node_addrs.iter().map(|(k, v)| (*k, v.to_string())).collect(),
            logs: raft_index.logs.iter().map(|l| l.start_index).collect(),
            applied: last_applied_log,
        }),
        Ok(Ok(_)) => Err("LoadIndexInfo answers with another response".to_string()),
        Ok(Err(e)) => Err(format!("LoadIndexInfo fails: {}", e)),
        Err(e) => Err(format!("mailbox: {}", e)),
    }
}

async fn start(dir: &std::path::Path) -> Addr<RaftIndexManager> {
    let a = RaftIndexManager::new(Arc::new(dir.to_string_lossy().into_owned())).start();
    // the actor opens its file in a ctx.wait future: the first answer arrives when it is ready
    for _ in 0..100 {
        if let Ok(Ok(_)) = a.send(RaftIndexRequest::LoadIndexInfo).await {
            break;
        }
        tokio::time::sleep(Duration::from_millis(10)).await;
    }
    a
}

async fn one(hist: &serde_json::Value) -> Result<(), Fail> {
    let d1 = tempfile::tempdir().unwrap();
    let d2 = tempfile::tempdir().unwrap();
    let a = start(d1.path()).await;
    let mut r = Ref::default();
    for (k, op) in hist["ops"].as_array().cloned().unwrap_or_default().iter().enumerate() {
        let name = op["op"].as_str().unwrap_or("");
        let msg = match name {
            "save-hard-state" => {
                r.term = op["term"].as_u64().unwrap_or(0);
                r.vote = op["vote"].as_u64().unwrap_or(0);
                RaftIndexRequest::SaveHardState { current_term: r.term, voted_for: r.vote }
            }
            "save-member" => {
                let member: Vec<u64> = op["member"].as_array().cloned().unwrap_or_default().iter().map(|x| x.as_u64().unwrap_or(0)).collect();
                let mac: Option<Vec<u64>> = op["member_after_consensus"].as_array().map(|a| a.iter().map(|x| x.as_u64().unwrap_or(0)).collect());
                let addrs: Option<HashMap<u64, Arc<String>>> = op["node_addr"].as_object().map(|m| {
                    m.iter().map(|(k, v)| (k.parse().unwrap_or(0), Arc::new(v.as_str().unwrap_or("").to_string()))).collect()
                });
                r.member = member.clone();
                if let Some(m) = &mac {
                    r.mac = m.clone();
                }
                if let Some(m) = &addrs {
                    r.addrs = m.iter().map(|(k, v)| (*k, v.to_string())).collect();
                }
                RaftIndexRequest::SaveMember { member, member_after_consensus: mac, node_addr: addrs }
            }
            "add-node-addr" => {
                let id = op["id"].as_u64().unwrap_or(0);
                let addr = op["addr"].as_str().unwrap_or("").to_string();
                r.addrs.insert(id, addr.clone());
                RaftIndexRequest::AddNodeAddr(id, Arc::new(addr))
            }
            "save-logs" => {
                let st = op["start"].as_u64().unwrap_or(0);
                r.logs = vec![st];
                RaftIndexRequest::SaveLogs(vec![LogRange { id: 1, pre_term: 0, start_index: st, record_count: 0, split_off_index: st, is_close: false, mark_remove: false }])
            }
            "save-last-applied" => {
                r.applied = op["applied"].as_u64().unwrap_or(0);
                RaftIndexRequest::SaveLastAppliedLog(r.applied)
            }
            _ => return Err(Fail::Model(format!("op {}: unknown op {}", k, name))),
        };
        match a.send(msg).await {
            Ok(Ok(_)) => {}
            Ok(Err(e)) => return Err(Fail::Property(format!("op {}: a save request is answered with an error: {}", k, e))),
            Err(e) => return Err(Fail::Model(format!("op {}: mailbox: {}", k, e))),
        }
        let got = observe(&a).await.map_err(|e| Fail::Property(format!("op {}: {}", k, e)))?;
        if got != r {
            return Err(Fail::Property(format!("op {} ({}): same process: the index manager reports {:?}; acknowledged: {:?}", k, name, got, r)));
        }
    }
    // restart on a copy of the directory (the lock file stays with the first process)
    tokio::time::sleep(Duration::from_millis(200)).await;
    for item in std::fs::read_dir(d1.path()).unwrap() {
        let item = item.unwrap();
        if item.file_name().to_string_lossy() == "db_lock" || !item.path().is_file() {
            continue;
        }
        std::fs::copy(item.path(), d2.path().join(item.file_name())).unwrap();
    }
    let b = start(d2.path()).await;
    let got = observe(&b).await.map_err(|e| Fail::Property(format!("after restart: {}", e)))?;
    if got != r {
        return Err(Fail::Property(format!("after a restart the index manager reports {:?}; acknowledged before the stop: {:?}", got, r)));
    }
    Ok(())
}

pub fn replay_file() {
    let path = std::env::var("VERIF_REPLAY").expect("VERIF_REPLAY not set");
    let txt = std::fs::read_to_string(&path).expect("replay file unreadable");
    let v: serde_json::Value = serde_json::from_str(&txt).expect("replay file not json");
    let mode = v["mode"].as_str().unwrap_or("validate").to_string();
    let hists = v["histories"].as_array().cloned().unwrap_or_default();
    let n = hists.len();
    let results: Vec<Result<(), Fail>> = actix_rt::System::new().block_on(async move {
        let mut out = vec![];
        for h in hists {
            out.push(one(&h).await);
        }
        out
    });
    for (i, r) in results.into_iter().enumerate() {
        match r {
            Ok(()) => {}
            Err(Fail::Property(msg)) => {
                if mode == "violation" {
                    panic!("VERIF-REPLAY-CHECK-FAILED: {}", msg);
                }
                panic!("VERIF-VALIDATE-MISMATCH history {}: the real code breaks an expectation the encoding discharged: {}", i + 1, msg);
            }
            Err(Fail::Model(msg)) => panic!("VERIF-VALIDATE-MISMATCH history {}: {}", i + 1, msg),
        }
    }
    println!("VERIF-REPLAY-PASSED covers=[] histories={}", n);
}
