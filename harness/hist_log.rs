//! Native replay of engine-S operation histories of one raft log file (C02 / C03 / C04, rs2smt/c03.py).
//! The history (ops with concrete values taken from the solver's model) is executed on the real
//! `LogInnerManager` over a real file in a temp dir.
//!   mode "violation": a property expectation that fails on the real code confirms the counterexample
//!                     (VERIF-REPLAY-CHECK-FAILED); if every expectation holds the counterexample is not confirmed.
//!   mode "validate":  translator validation - the real code must behave exactly as the encoding predicted
//!                     (write results, visible entries, file bytes); a difference is VERIF-VALIDATE-MISMATCH.
#![allow(dead_code, unused_imports, clippy::all)]
use super::super::*;
use crate::verif_harness::support::run;

type Entry = (u64, u64, Vec<u8>);

fn entries_of(v: &serde_json::Value) -> Vec<Entry> {
    v.as_array()
        .cloned()
        .unwrap_or_default()
        .iter()
        .map(|e| {
            (
                e[0].as_u64().unwrap_or(0),
                e[1].as_u64().unwrap_or(0),
                e[2].as_array().cloned().unwrap_or_default().iter().map(|b| b.as_u64().unwrap_or(0) as u8).collect(),
            )
        })
        .collect()
}

fn bytes_of(v: &serde_json::Value) -> Vec<u8> {
    v.as_array().cloned().unwrap_or_default().iter().map(|b| b.as_u64().unwrap_or(0) as u8).collect()
}

fn mark_name(m: &LogWriteMark) -> &'static str {
    match m {
        LogWriteMark::Success => "Success",
        LogWriteMark::SuccessToEnd => "SuccessToEnd",
        LogWriteMark::Failure => "Failure",
        LogWriteMark::Error => "Error",
        LogWriteMark::IndexEqualError => "IndexEqualError",
    }
}

/// what the log shows: (end index, last term, entries)
fn view(m: &mut LogInnerManager, first: u64) -> Result<(u64, u64, Vec<Entry>), String> {
    let end = m.get_end_index();
    let lt = m.get_last_term();
    let recs = run(m.read_records(0, end + 3)).map_err(|e| format!("read_records fails: {}", e))?;
    let _ = first;
    Ok((end, lt, recs.into_iter().map(|r| (r.index, r.term, r.value)).collect()))
}

fn matches(v: &(u64, u64, Vec<Entry>), first: u64, cand: &[Entry]) -> bool {
    if v.0 != first + cand.len() as u64 {
        return false;
    }
    if let Some(l) = cand.last() {
        if v.1 != l.1 {
            return false;
        }
    }
    v.2.as_slice() == cand
}

pub fn replay_file() {
    let path = std::env::var("VERIF_REPLAY").expect("VERIF_REPLAY not set");
    let txt = std::fs::read_to_string(&path).expect("replay file unreadable");
    let v: serde_json::Value = serde_json::from_str(&txt).expect("replay file not json");
    let mode = v["mode"].as_str().unwrap_or("validate").to_string();
    let mut n_hist = 0usize;
    for h in v["histories"].as_array().cloned().unwrap_or_default() {
        n_hist += 1;
        match one_history(&h, &mode) {
            Ok(()) => {}
            Err(Fail::Property(msg)) => {
                if mode == "violation" {
                    panic!("VERIF-REPLAY-CHECK-FAILED: {}", msg);
                }
                panic!("VERIF-VALIDATE-MISMATCH history {}: the real code breaks an expectation the encoding discharged: {}", n_hist, msg);
            }
            Err(Fail::Model(msg)) => {
                panic!("VERIF-VALIDATE-MISMATCH history {}: {}", n_hist, msg);
            }
        }
    }
    println!("VERIF-REPLAY-PASSED covers=[] histories={}", n_hist);
}

enum Fail {
    Property(String),
    Model(String),
}

fn one_history(h: &serde_json::Value, mode: &str) -> Result<(), Fail> {
    let dir = std::env::temp_dir().join(format!("verif-hist-{}-{}", std::process::id(), crate::now_millis()));
    std::fs::create_dir_all(&dir).unwrap();
    let file = dir.join("log_1");
    let fpath = file.to_string_lossy().into_owned();
    let r = run_ops(h, mode, &fpath);
    let _ = std::fs::remove_dir_all(&dir);
    r
}

fn run_ops(h: &serde_json::Value, mode: &str, fpath: &str) -> Result<(), Fail> {
    let mut first = 0u64;
    let mut mgr: Option<LogInnerManager> = None;
    for (k, op) in h["ops"].as_array().cloned().unwrap_or_default().iter().enumerate() {
        let name = op["op"].as_str().unwrap_or("");
        match name {
            "first" => {
                first = op["first"].as_u64().unwrap_or(0);
            }
            "open" => {
                first = op["first"].as_u64().unwrap_or(0);
                mgr = Some(run(LogInnerManager::init(fpath.to_string(), first, 0, 0)).map_err(|e| Fail::Property(format!("op {}: a fresh log file cannot be initialised: {}", k, e)))?);
            }
            "patch_interval" => {
                drop(mgr.take());
                let mut b = std::fs::read(fpath).unwrap();
                let val = op["value"].as_u64().unwrap_or(2) as u16;
                let off = op["offset"].as_u64().unwrap_or(24) as usize;
                b[off..off + 2].copy_from_slice(&val.to_be_bytes());
                std::fs::write(fpath, &b).unwrap();
                let m = run(LogInnerManager::init(fpath.to_string(), first, 0, 0)).map_err(|e| Fail::Model(format!("op {}: reopen after the interval patch fails: {}", k, e)))?;
                if m.header.index_interval != val {
                    return Err(Fail::Model(format!("op {}: the header's index interval is {} after the patch, not {}", k, m.header.index_interval, val)));
                }
                mgr = Some(m);
            }
            "set_len" => {
                drop(mgr.take());
                let f = std::fs::OpenOptions::new().write(true).open(fpath).unwrap();
                f.set_len(op["len"].as_u64().unwrap_or(4096)).unwrap();
                drop(f);
                mgr = Some(run(LogInnerManager::init(fpath.to_string(), first, 0, 0)).map_err(|e| Fail::Model(format!("op {}: reopen after set_len fails: {}", k, e)))?);
            }
            "write" => {
                let rec = LogRecordDto {
                    index: op["index"].as_u64().unwrap_or(0),
                    term: op["term"].as_u64().unwrap_or(0),
                    value: bytes_of(&op["value"]),
                };
                let m = mgr.as_mut().unwrap();
                let kind = match run(m.write(&rec)) {
                    Ok(mk) => mark_name(&mk).to_string(),
                    Err(_) => "Err".to_string(),
                };
                let ok = kind == "Success" || kind == "SuccessToEnd";
                match op["expect"].as_str().unwrap_or("") {
                    "ok" if !ok => return Err(Fail::Property(format!("op {}: {} (real result: {})", k, op["what"].as_str().unwrap_or("a contiguous append is refused"), kind))),
                    "refused" if ok || kind != "IndexEqualError" => {
                        return Err(Fail::Property(format!("op {}: an append with a non-contiguous index is not refused (real result: {})", k, kind)))
                    }
                    _ => {}
                }
                if mode == "validate" {
                    if let Some(mk) = op["model_kind"].as_str() {
                        if mk != kind {
                            return Err(Fail::Model(format!("op {}: write result is {} in the real code, {} in the encoding", k, kind, mk)));
                        }
                    }
                }
            }
            "strip" => {
                let m = mgr.as_mut().unwrap();
                run(m.strip_log_to(op["index"].as_u64().unwrap_or(0))).map_err(|e| Fail::Property(format!("op {}: delete-from fails: {}", k, e)))?;
            }
            "reopen" => {
                drop(mgr.take());
                mgr = Some(run(LogInnerManager::init(fpath.to_string(), first, 0, 0)).map_err(|e| Fail::Property(format!("op {}: the log does not reopen: {}", k, e)))?);
            }
            "load_image" => {
                drop(mgr.take());
                std::fs::write(fpath, bytes_of(&op["bytes"])).unwrap();
                mgr = Some(run(LogInnerManager::init(fpath.to_string(), first, 0, 0)).map_err(|e| Fail::Property(format!("op {}: the log does not reopen after a crash: {}", k, e)))?);
            }
            "expect" => {
                let m = mgr.as_mut().unwrap();
                let got = view(m, first).map_err(|e| Fail::Property(format!("op {}: {}", k, e)))?;
                let cands: Vec<Vec<Entry>> = op["candidates"].as_array().cloned().unwrap_or_default().iter().map(entries_of).collect();
                if !cands.iter().any(|c| matches(&got, first, c)) {
                    return Err(Fail::Property(format!(
                        "op {} ({}): the log shows end index {} last term {} entries {:?}; expected {:?}",
                        k,
                        op["what"].as_str().unwrap_or(""),
                        got.0,
                        got.1,
                        got.2,
                        cands
                    )));
                }
            }
            "model_file" => {
                if mode == "validate" {
                    drop(mgr.take());
                    let real = std::fs::read(fpath).unwrap();
                    let want = bytes_of(&op["bytes"]);
                    let n = std::cmp::max(real.len(), want.len());
                    for i in 0..n {
                        let a = real.get(i).copied().unwrap_or(0);
                        let b = want.get(i).copied().unwrap_or(0);
                        if a != b {
                            return Err(Fail::Model(format!("op {}: file byte {} is {} on disk, {} in the encoding's file model", k, i, a, b)));
                        }
                    }
                    mgr = Some(run(LogInnerManager::init(fpath.to_string(), first, 0, 0)).map_err(|e| Fail::Model(format!("op {}: reopen fails: {}", k, e)))?);
                }
            }
            _ => return Err(Fail::Model(format!("op {}: unknown op {}", k, name))),
        }
    }
    Ok(())
}
