//! Included from /repo/src/naming/core.rs (inside `naming::core`, so the NamingActor's private methods are reachable) by a
//! one-line hook that is inert unless cfg(kani) or cfg(rnacos_verif) is set.
//! Native replay of engine-S histories of rs2smt/c11index.py (C11: namespace / group index and the clean-up of empty
//! services) on a real `NamingActor` value in scaled real time (1 s of the model's clock grid = 20 ms, service time-out 600 ms
//! instead of 30 s): the timer step sleeps until its grid point and runs the body of `clear_empty_service`
//! (`empty_service_set.timeout(now)` + `clear_one_empty_service(key, now)`), registrations and removals read the real clock.
#![allow(dead_code, unused_imports, clippy::all)]
#[cfg(not(kani))]
pub mod hist {
    use super::super::*;
    use std::collections::BTreeSet;

    enum Fail {
        Property(String),
        Model(String),
    }

    pub fn replay_file() {
        let path = std::env::var("VERIF_REPLAY").expect("VERIF_REPLAY not set");
        let txt = std::fs::read_to_string(&path).expect("replay file unreadable");
        let v: serde_json::Value = serde_json::from_str(&txt).expect("replay file not json");
        let mode = v["mode"].as_str().unwrap_or("validate").to_string();
        let mut n = 0usize;
        for hist in v["histories"].as_array().cloned().unwrap_or_default() {
            n += 1;
            match one(&hist) {
                Ok(()) => {}
                Err(Fail::Property(msg)) => {
                    if mode == "violation" {
                        panic!("VERIF-REPLAY-CHECK-FAILED: {}", msg);
                    }
                    panic!("VERIF-VALIDATE-MISMATCH history {}: the real code breaks an expectation the encoding discharged: {}", n, msg);
                }
                Err(Fail::Model(msg)) => panic!("VERIF-VALIDATE-MISMATCH history {}: {}", n, msg),
            }
        }
        println!("VERIF-REPLAY-PASSED covers=[] histories={}", n);
    }

    fn key_of(op: &serde_json::Value) -> ServiceKey {
        let s = op["service"].as_array().cloned().unwrap_or_default();
        let g = |i: usize| s.get(i).and_then(|x| x.as_str()).unwrap_or("").to_string();
        ServiceKey::new(&g(0), &g(1), &g(2))
    }

    fn listed(actor: &NamingActor) -> (Vec<(String, String, String)>, Vec<String>) {
        let mut out = vec![];
        let mut problems = vec![];
        let mut total = 0usize;
        for (ns, sidx) in actor.namespace_index.namespace_group.iter() {
            let mut cnt = 0usize;
            for (g, names) in sidx.group_service.iter() {
                if names.is_empty() {
                    problems.push(format!("group {} of namespace {} is listed with no service", g, ns));
                }
                for n in names.iter() {
                    out.push((ns.to_string(), g.to_string(), n.to_string()));
                    cnt += 1;
                }
            }
            if cnt == 0 {
                problems.push(format!("namespace {} is listed with no service", ns));
            }
            if sidx.service_size != cnt {
                problems.push(format!("namespace {} counts {} services, {} are listed", ns, sidx.service_size, cnt));
            }
            total += cnt;
        }
        if actor.namespace_index.service_size != total {
            problems.push(format!("the index counts {} services, {} are listed", actor.namespace_index.service_size, total));
        }
        out.sort();
        (out, problems)
    }

    fn one(hist: &serde_json::Value) -> Result<(), Fail> {
        let mut actor = NamingActor::new();
        let ip = Arc::new("1.1.1.1".to_string());
        let short = InstanceShortKey::new(ip.clone(), 1);
        let mut reference: BTreeSet<(String, String, String)> = BTreeSet::new();
        // scaled real time: one second of the model's clock grid = SCALE ms, the service time-out 30 s = 30 * SCALE ms; an operation
        // behind a timer round at grid point g runs at real time base + g * SCALE (registrations and removals read the real clock)
        const SCALE: u64 = 20;
        actor.sys_config.service_time_out_millis = 30 * SCALE;
        let base = now_millis();
        for (k, op) in hist["ops"].as_array().cloned().unwrap_or_default().iter().enumerate() {
            let name = op["op"].as_str().unwrap_or("");
            match name {
                "reg" => {
                    let key = key_of(op);
                    let mut ins = Instance::new("1.1.1.1".to_string(), 1);
                    ins.weight = 1.0;
                    ins.enabled = true;
                    ins.healthy = op["healthy"].as_bool().unwrap_or(true);
                    ins.ephemeral = op["ephemeral"].as_bool().unwrap_or(true);
                    ins.cluster_name = "DEFAULT".to_string();
                    ins.service_name = key.service_name.clone();
                    ins.group_name = key.group_name.clone();
                    ins.namespace_id = key.namespace_id.clone();
                    actor.update_instance(&key, ins, None, false, None);
                    reference.insert((key.namespace_id.to_string(), key.group_name.to_string(), key.service_name.to_string()));
                }
                "dereg" => {
                    let key = key_of(op);
                    actor.remove_instance(&key, &short, None);
                    reference.remove(&(key.namespace_id.to_string(), key.group_name.to_string(), key.service_name.to_string()));
                }
                "tick" => {
                    let now = base + op["at_s"].as_u64().unwrap_or(0) * SCALE;
                    let real = now_millis();
                    if now > real {
                        std::thread::sleep(std::time::Duration::from_millis(now - real));
                    }
                    for service_map_key in actor.empty_service_set.timeout(now) {
                        actor.clear_one_empty_service(service_map_key, now);
                    }
                }
                "drop" => {
                    let key = key_of(op);
                    let has = reference.contains(&(key.namespace_id.to_string(), key.group_name.to_string(), key.service_name.to_string()));
                    let r = actor.remove_empty_service(key.clone());
                    if has && r.is_ok() {
                        return Err(Fail::Property(format!(
                            "op {}: the console's removal of service {}/{}/{} is accepted although it has a registered instance",
                            k, key.namespace_id, key.group_name, key.service_name
                        )));
                    }
                }
                _ => return Err(Fail::Model(format!("op {}: unknown op {}", k, name))),
            }
            for s in reference.iter() {
                let key = ServiceKey::new(&s.0, &s.1, &s.2);
                match actor.service_map.get(&key) {
                    None => {
                        return Err(Fail::Property(format!(
                            "op {}: service {}/{}/{} has a registered instance but is dropped from the service map",
                            k, s.0, s.1, s.2
                        )))
                    }
                    Some(svc) => {
                        if !svc.instances.contains_key(&short) {
                            return Err(Fail::Property(format!("op {}: the registered instance of service {}/{}/{} is gone", k, s.0, s.1, s.2)));
                        }
                    }
                }
            }
            let (lst, problems) = listed(&actor);
            if let Some(p) = problems.first() {
                return Err(Fail::Property(format!("op {}: namespace / group index: {}", k, p)));
            }
            let mut in_map: Vec<(String, String, String)> =
                actor.service_map.keys().map(|k| (k.namespace_id.to_string(), k.group_name.to_string(), k.service_name.to_string())).collect();
            in_map.sort();
            if lst != in_map {
                return Err(Fail::Property(format!("op {}: the namespace / group index lists {:?}, the service map holds {:?}", k, lst, in_map)));
            }
        }
        Ok(())
    }
}
