//! C05 — vote / term / membership durable: RaftIndexInnerManager write -> reopen round trip on a file
//! (simfs under Kani, a temp file natively). Anchors: /repo/src/raft/filestore/raftindex.rs:31-108,
//! common/byte_utils.rs.
#![allow(dead_code, unused_imports, clippy::all)]
use super::support::*;
use crate::common::byte_utils::{bin_to_id, id_to_bin};
use crate::raft::filestore::log::LogRange;
use crate::raft::filestore::model::RaftIndexDto;
use crate::raft::filestore::raftindex::RaftIndexInnerManager;
use std::collections::HashMap;

/// K05.2 id_to_bin / bin_to_id round trip, all u64
pub fn k05_2_id_bin<S: Src>(s: &mut S) {
    let v = s.u64();
    let b = id_to_bin(v);
    vcheck!(s, b.len() == 8, "id_to_bin writes eight bytes");
    let mut a = [0u8; 8];
    let mut i = 0;
    while i < 8 {
        a[i] = b[i];
        i += 1;
    }
    vcheck!(s, bin_to_id(&a) == v, "bin_to_id(id_to_bin(v)) == v");
    std::mem::forget(b);
}

fn empty_dto() -> RaftIndexDto {
    RaftIndexDto {
        logs: Vec::new(),
        current_log: 0,
        snapshots: Vec::new(),
        last_snapshot: 0,
        last_snapshot_index: 0,
        last_snapshot_term: 0,
        current_term: 0,
        voted_for: 0,
        member: Vec::new(),
        member_after_consensus: Vec::new(),
        node_addrs: HashMap::new(),
    }
}

/// K05.1 hard state (and optionally one log range) saved, then the file is reopened: term, vote, catalogue
/// and last-applied index must be what was acknowledged. `WITH_LOG` = the catalogue already holds a log range
/// (longer record); without it the record is the small one a fresh node writes when it casts its first vote.
pub fn k05_1_hard_state<S: Src, const WITH_LOG: bool>(s: &mut S) {
    let path = scratch("idx");
    let term = s.u64();
    let vote = s.u64();
    let applied = s.u64();
    let write_applied = s.bool();
    let mut m = run(RaftIndexInnerManager::init(&path)).unwrap();
    let mut dto = empty_dto();
    dto.current_term = term;
    dto.voted_for = vote;
    if WITH_LOG {
        let start = s.u64();
        dto.logs.push(LogRange { id: 1, pre_term: 0, start_index: start, record_count: 0, split_off_index: start, is_close: false, mark_remove: false });
    }
    run(m.write_index(dto)).unwrap();
    if write_applied {
        run(m.write_last_applied_log(applied)).unwrap();
        run(m.flush()).unwrap();
    }
    std::mem::forget(m);
    // restart
    let m2 = run(RaftIndexInnerManager::init(&path));
    match m2 {
        Ok(m2) => {
            vcover!(s, term < 128 && vote < 128, "term and vote on one byte each (file of 13 bytes)");
            vcover!(s, term > (1u64 << 40), "large term");
            if !WITH_LOG && term < 128 && vote < 128 && term + vote > 0 {
                s.tag("index-file-at-most-20-bytes");
            }
            vcheck!(s, m2.raft_index.current_term == term, "term read back after restart differs from the saved term");
            vcheck!(s, m2.raft_index.voted_for == vote, "vote read back after restart differs from the saved vote");
            if WITH_LOG {
                vcheck!(s, m2.raft_index.logs.len() == 1, "log catalogue lost on restart");
            }
            if write_applied {
                vcheck!(s, m2.last_applied_log == applied, "last applied index read back differs");
            } else {
                vcheck!(s, m2.last_applied_log == 0, "last applied index invented");
            }
            std::mem::forget(m2);
        }
        Err(e) => {
            std::mem::forget(e);
            vcheck!(s, false, "index file does not reopen");
        }
    }
}
pub fn k05_1_hard_state_fresh<S: Src>(s: &mut S) {
    k05_1_hard_state::<S, false>(s)
}
pub fn k05_1_hard_state_with_log<S: Src>(s: &mut S) {
    k05_1_hard_state::<S, true>(s)
}

#[cfg(kani)]
fn scratch(name: &str) -> String {
    tokio::fs::simfs::reset(64);
    String::from(name)
}
#[cfg(not(kani))]
fn scratch(name: &str) -> String {
    let d = std::env::temp_dir().join(format!("verif-c05-{}-{}", std::process::id(), crate::now_millis()));
    std::fs::create_dir_all(&d).ok();
    d.join(name).to_string_lossy().into_owned()
}

#[cfg(kani)]
mod proofs {
    use super::*;
    fn rs_stub() -> std::hash::RandomState {
        unsafe { std::mem::transmute::<(u64, u64), std::hash::RandomState>((0, 0)) }
    }
    macro_rules! p {
        ($n:ident, $u:literal) => {
            #[kani::proof]
            #[kani::unwind($u)]
            #[kani::stub(std::backtrace::Backtrace::capture, bt_stub)]
            #[kani::stub(<anyhow::Error as std::ops::Drop>::drop, anyhow_drop_stub)]
            #[kani::stub(std::hash::RandomState::new, rs_stub)]
            fn $n() {
                super::$n(&mut KSrc)
            }
        };
    }
    p!(k05_2_id_bin, 10);
    p!(k05_1_hard_state_fresh, 12);
    p!(k05_1_hard_state_with_log, 12);
}

#[cfg(not(kani))]
pub fn replay(name: &str, s: &mut RSrc) -> bool {
    match name {
        "k05_2_id_bin" => k05_2_id_bin(s),
        "k05_1_hard_state_fresh" => k05_1_hard_state_fresh(s),
        "k05_1_hard_state_with_log" => k05_1_hard_state_with_log(s),
        _ => return false,
    }
    true
}
