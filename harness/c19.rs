//! C19 — issued sequence ids are unique and increasing.
//! Anchors: /repo/src/sequence/model.rs (SeqGroup, SeqRange), /repo/src/common/sequence_utils.rs
//! (SimpleSequence).
#![allow(dead_code, unused_imports, clippy::all)]
use super::support::*;
use crate::common::sequence_utils::SimpleSequence;
use crate::sequence::model::SeqGroup;

// ---- K19.1 SeqGroup under the SequenceManager message protocol ---------------------------------
//
// Environment (the only modelled part): the range allocator behind Raft hands out disjoint,
// increasing ranges in the order the fetches were *issued* (SequenceDbManager::next_range, K19.2);
// a fetch completes at an arbitrary later step. `fifo` selects whether completions respect the
// issue order (one Raft leader, one connection) or may overtake each other.
//
// Protocol = SequenceManager::{handle, handle_result} (src/sequence/mod.rs), calling the real
// SeqGroup methods:
//   GetNextId:  (v, need) = (group.next_id(), group.need_apply())
//               v = Some -> answer v; if need -> enqueue FillRange
//               v = None -> issue fetch U (UseFromRange)
//   FillRange:  if group.need_apply() { group.mark_apply(); issue fetch F } else ignore
//   fetch U completes: group.apply_range(start, len); answer group.next_id() (+ need_apply ignored)
//   fetch F completes: group.apply_range(start, len); group.clear_apply_mark()
const MAXP: usize = 4;

#[derive(Clone, Copy)]
struct Pending {
    live: bool,
    is_use: bool,
    start: u64,
    len: u64,
}

pub fn k19_1_seqgroup<S: Src, const STEPS: usize>(s: &mut S, fifo: bool) {
    let step_len = s.u64();
    s.assume(step_len >= 1 && step_len <= 2);
    let mut group = SeqGroup::new(step_len);
    let mut next_free: u64 = 1; // allocator: next_range hands out [next_free, next_free + len)
    let mut pend = [Pending { live: false, is_use: false, start: 0, len: 0 }; MAXP];
    let mut n_pend = 0usize; // issued so far (index of next slot)
    let mut first_live = 0usize; // fifo: oldest not yet completed
    let mut fill_queued = 0usize; // FillRange messages in the mailbox
    let mut last_id: u64 = 0;
    let mut have_last = false;
    let mut issued = 0usize;
    let mut overtook = false;

    let mut k = 0;
    while k < STEPS {
        k += 1;
        let op = s.u8();
        s.assume(op < 3);
        let mut answered: Option<u64> = None;
        if op == 0 {
            // GetNextId
            let v = group.next_id();
            let need = group.need_apply();
            match v {
                Some(id) => {
                    answered = Some(id);
                    if need {
                        fill_queued += 1;
                    }
                }
                None => {
                    if n_pend < MAXP {
                        pend[n_pend] = Pending { live: true, is_use: true, start: next_free, len: step_len };
                        next_free += step_len;
                        n_pend += 1;
                    } else {
                        s.assume(false);
                    }
                }
            }
        } else if op == 1 {
            // the actor takes a FillRange message from its mailbox
            s.assume(fill_queued > 0);
            fill_queued -= 1;
            if group.need_apply() {
                group.mark_apply();
                if n_pend < MAXP {
                    pend[n_pend] = Pending { live: true, is_use: false, start: next_free, len: step_len };
                    next_free += step_len;
                    n_pend += 1;
                } else {
                    s.assume(false);
                }
            }
        } else {
            // a pending fetch completes
            let i = if fifo { first_live } else { s.usize() };
            s.assume(i < n_pend && pend[i].live);
            let mut j = 0;
            while j < MAXP {
                if j < i && pend[j].live {
                    overtook = true;
                }
                j += 1;
            }
            pend[i].live = false;
            while first_live < n_pend && !pend[first_live].live {
                first_live += 1;
            }
            group.apply_range(pend[i].start, pend[i].len);
            if pend[i].is_use {
                // handle_result(UseFromRange): do_next_id
                answered = group.next_id();
                let _ = group.need_apply();
            } else {
                group.clear_apply_mark();
            }
        }
        if let Some(id) = answered {
            issued += 1;
            if have_last {
                if overtook {
                    s.tag("fetch-completions-out-of-order");
                }
                vcheck!(s, id != last_id, "sequence id issued twice");
                vcheck!(s, id > last_id, "sequence id goes backwards");
            }
            last_id = id;
            have_last = true;
        }
    }
    vcover!(s, issued >= 3, "three ids issued");
    vcover!(s, issued >= 2 && n_pend >= 2, "ids issued across two fetched ranges");
}

pub fn k19_1_seqgroup_fifo<S: Src>(s: &mut S) {
    k19_1_seqgroup::<S, 9>(s, true)
}
pub fn k19_1_seqgroup_any_order<S: Src>(s: &mut S) {
    k19_1_seqgroup::<S, 9>(s, false)
}

// ---- K19.3 SimpleSequence: config history ids, leader / follower / snapshot ------------------------
//
// Two replicas. The leader stamps a publish with (id, table_id?) = next_state(); the entry is
// replicated and applied on both replicas: ConfigActor::set_config calls
// sequence.set_valid_last_id(table_id) when the entry carries one (src/config/core.rs). A snapshot
// stores get_end_id(); loading it calls set_last_id(v). Leadership may move to the other replica
// after it has applied everything committed so far. Ids of committed publishes must be pairwise
// distinct and increasing in log order.
pub fn k19_3_simple_sequence<S: Src, const STEPS: usize>(s: &mut S) {
    let batch = s.u64();
    s.assume(batch >= 1 && batch <= 3);
    let mut r0 = SimpleSequence::new(0, batch);
    let mut r1 = SimpleSequence::new(0, batch);
    let mut leader0 = true;
    let mut last_id: u64 = 0;
    let mut have_last = false;
    let mut n = 0usize; // committed publishes so far
    // replicated log: the table id each committed publish carries
    let mut tlog_has = [false; STEPS];
    let mut tlog_val = [0u64; STEPS];
    // latest snapshot of each replica: (value of get_end_id, number of publishes it covers)
    let mut snap_has = [false; 2];
    let mut snap_val = [0u64; 2];
    let mut snap_at = [0usize; 2];
    let mut leader_changes = 0usize;
    let mut restores = 0usize;
    let mut replayed = 0usize;
    let mut installs = 0usize;
    let mut k = 0;
    while k < STEPS {
        k += 1;
        let op = s.u8();
        s.assume(op < 5);
        if op == 4 {
            // a running replica receives the other replica's latest snapshot (snapshot installation: ConfigCmd::InnerSetLastId
            // -> set_last_id on the live sequence, whatever is left of its own batch) and replays the log suffix behind it
            let w = if s.bool() { 0 } else { 1 };
            let o = 1 - w;
            if snap_has[o] {
                let q: &mut SimpleSequence = if w == 0 { &mut r0 } else { &mut r1 };
                q.set_last_id(snap_val[o]);
                let mut j = 0;
                while j < STEPS {
                    if j >= snap_at[o] && j < n && tlog_has[j] {
                        q.set_valid_last_id(tlog_val[j]);
                    }
                    j += 1;
                }
                installs += 1;
            }
        } else if op == 0 {
            // publish through the current leader; committed and applied on both replicas
            let (id, table_id) = if leader0 {
                r0.next_state().unwrap()
            } else {
                r1.next_state().unwrap()
            };
            if let Some(t) = table_id {
                r0.set_valid_last_id(t);
                r1.set_valid_last_id(t);
                tlog_has[n] = true;
                tlog_val[n] = t;
            }
            if have_last {
                vcheck!(s, id != last_id, "history id issued twice");
                vcheck!(s, id > last_id, "history id goes backwards");
            }
            last_id = id;
            have_last = true;
            n += 1;
        } else if op == 1 {
            // leader change (both replicas have applied every committed entry)
            leader0 = !leader0;
            leader_changes += 1;
        } else if op == 2 {
            // a replica writes a snapshot (build_snapshot stores get_end_id)
            let w = if s.bool() { 0 } else { 1 };
            snap_has[w] = true;
            snap_val[w] = if w == 0 { r0.get_end_id() } else { r1.get_end_id() };
            snap_at[w] = n;
        } else {
            // a replica restarts: fresh actor, load its latest snapshot (set_last_id), replay the log
            // suffix after it (set_valid_last_id for entries that carry a table id)
            let w = if s.bool() { 0 } else { 1 };
            let mut q = SimpleSequence::new(0, batch);
            let mut from = 0usize;
            if snap_has[w] {
                q.set_last_id(snap_val[w]);
                from = snap_at[w];
            }
            let mut j = 0;
            while j < STEPS {
                if j >= from && j < n && tlog_has[j] {
                    q.set_valid_last_id(tlog_val[j]);
                    replayed += 1;
                }
                j += 1;
            }
            if w == 0 {
                r0 = q;
            } else {
                r1 = q;
            }
            restores += 1;
        }
    }
    vcover!(s, n >= 3 && leader_changes >= 1, "three publishes with a leader change");
    vcover!(s, n >= 2 && restores >= 1 && replayed >= 1, "restart with snapshot and replayed suffix, then publish");
    vcover!(s, installs >= 1 && n >= 2, "snapshot installed on a running replica");
}

pub fn k19_3_simple_sequence_6<S: Src>(s: &mut S) {
    k19_3_simple_sequence::<S, 6>(s)
}

pub fn k19_3_simple_sequence_8<S: Src>(s: &mut S) {
    k19_3_simple_sequence::<S, 8>(s)
}

// ---- K19.4 SimpleSequence::next_section / next_id never overlap -------------------------------------
pub fn k19_4_sections<S: Src>(s: &mut S) {
    let start = s.u64();
    s.assume(start < u64::MAX / 4);
    let batch = s.u64();
    s.assume(batch >= 1 && batch <= 1000);
    let mut q = SimpleSequence::new(start, batch);
    let a = q.next_id();
    let n = s.u64();
    s.assume(n <= 1_000_000);
    let (lo, hi) = q.next_section(n).unwrap();
    let b = q.next_id();
    vcheck!(s, a > start, "first id after the initial last id");
    if n > 0 {
        vcheck!(s, lo > a && hi >= lo && hi - lo + 1 == n, "section follows the issued id and has the requested size");
        vcheck!(s, b > hi, "id after a section lies beyond it");
    } else {
        vcheck!(s, b > a, "ids increase");
    }
    vcheck!(s, q.get_end_id() >= b, "end id covers everything issued");
}

#[cfg(kani)]
mod proofs {
    use super::*;
    macro_rules! p {
        ($n:ident, $u:literal) => {
            #[kani::proof]
            #[kani::unwind($u)]
            #[kani::stub(std::backtrace::Backtrace::capture, bt_stub)]
            #[kani::stub(<anyhow::Error as std::ops::Drop>::drop, anyhow_drop_stub)]
            fn $n() {
                super::$n(&mut KSrc)
            }
        };
    }
    p!(k19_1_seqgroup_fifo, 11);
    p!(k19_1_seqgroup_any_order, 11);
    p!(k19_3_simple_sequence_6, 8);
    p!(k19_3_simple_sequence_8, 10);
    p!(k19_4_sections, 3);
}

#[cfg(not(kani))]
pub fn replay(name: &str, s: &mut RSrc) -> bool {
    match name {
        "k19_1_seqgroup_fifo" => k19_1_seqgroup_fifo(s),
        "k19_1_seqgroup_any_order" => k19_1_seqgroup_any_order(s),
        "k19_3_simple_sequence_6" => k19_3_simple_sequence_6(s),
        "k19_3_simple_sequence_8" => k19_3_simple_sequence_8(s),
        "k19_4_sections" => k19_4_sections(s),
        _ => return false,
    }
    true
}
