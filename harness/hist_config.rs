//! Native replay of engine-S message histories of the config store (C09 / C10 / C19-S; rs2smt/c09.py, c10.py).
//! A real `ConfigActor` is started in an actix system and driven through its public messages: `ConfigRaftCmd::{ConfigAdd,
//! ConfigRemove}` (what a raft apply sends), `ConfigCmd::{GET, QueryPageInfo, QueryHistoryPageInfo, LISTENER, SetTmpValue}`.
//! After every step the property oracle is evaluated on the real answers:
//!   C09  GET returns the content / type / description of the last publish (nothing after a remove), md5 = md5(content);
//!        the listing holds exactly the stored keys; the history of a key holds the published contents in order (ids increasing)
//!   C10  no registered, unanswered long-poll listener holds an md5 that differs from the stored one (a key that holds a tmp value
//!        is exempt until its raft apply); a listener is answered at most once
//!   C19  history ids issued by this replica after a publish that carried a history-table id lie above that id
//! Content md5s: the encoding models md5(x) as "md5:" ++ x; a held md5 of that shape is translated to the real md5 of x.
//!   mode "violation": an oracle failure confirms the counterexample; mode "validate": oracle + equality with the encoding's state.
#![allow(dead_code, unused_imports, clippy::all)]
use crate::common::model::privilege::{NamespacePrivilegeGroup, PrivilegeGroup};
use crate::config::config_index::ConfigQueryParam;
use crate::config::core::{ConfigActor, ConfigCmd, ConfigKey, ConfigResult, ListenerItem, ListenerResult};
use crate::config::model::ConfigRaftCmd;
use actix::prelude::*;
use std::collections::{BTreeMap, BTreeSet};
use std::sync::Arc;

enum Fail {
    Property(String),
    Model(String),
}

fn key_of(v: &serde_json::Value) -> ConfigKey {
    ConfigKey::new(v[0].as_str().unwrap_or(""), v[1].as_str().unwrap_or(""), v[2].as_str().unwrap_or(""))
}

fn key_name(k: &ConfigKey) -> String {
    format!("{}/{}/{}", k.tenant, k.group, k.data_id)
}

fn real_md5(held: &str) -> String {
    match held.strip_prefix("md5:") {
        Some(content) => crate::utils::get_md5(content),
        None => held.to_string(),
    }
}

fn opt_arc(v: &serde_json::Value) -> Option<Arc<String>> {
    v.as_str().map(|s| Arc::new(s.to_string()))
}

#[derive(Default, Clone, Debug)]
struct RefValue {
    content: String,
    config_type: Option<String>,
    desc: Option<String>,
    history: Vec<String>,
    tmp: bool,
}

struct Listener {
    name: String,
    keys: Vec<ConfigKey>,
    held: Vec<String>,
    rx: tokio::sync::oneshot::Receiver<ListenerResult>,
    answered: Option<String>,
    registered: bool,
}

pub fn replay_file() {
    let path = std::env::var("VERIF_REPLAY").expect("VERIF_REPLAY not set");
    let txt = std::fs::read_to_string(&path).expect("replay file unreadable");
    let v: serde_json::Value = serde_json::from_str(&txt).expect("replay file not json");
    let mode = v["mode"].as_str().unwrap_or("validate").to_string();
    let hists = v["histories"].as_array().cloned().unwrap_or_default();
    let n = hists.len();
    let m2 = mode.clone();
    let results: Vec<Result<(), Fail>> = actix_rt::System::new().block_on(async move {
        let mut out = vec![];
        for h in hists {
            out.push(one(&h, &m2).await);
        }
        out
    });
    for (i, r) in results.into_iter().enumerate() {
        match r {
            Ok(()) => {}
            Err(Fail::Property(msg)) => {
                if mode == "violation" {
                    panic!("VERIF-REPLAY-CHECK-FAILED: {}", msg);
                }
                panic!("VERIF-VALIDATE-MISMATCH history {}: the real code breaks an expectation the encoding discharged: {}", i + 1, msg);
            }
            Err(Fail::Model(msg)) => panic!("VERIF-VALIDATE-MISMATCH history {}: {}", i + 1, msg),
        }
    }
    println!("VERIF-REPLAY-PASSED covers=[] histories={}", n);
}

async fn get(actor: &Addr<ConfigActor>, k: &ConfigKey) -> Option<(String, String, Option<String>, Option<String>)> {
    match actor.send(ConfigCmd::GET(k.clone())).await {
        Ok(Ok(ConfigResult::Data { value, md5, config_type, desc, .. })) => {
            Some((value.to_string(), md5.to_string(), config_type.map(|x| x.to_string()), desc.map(|x| x.to_string())))
        }
        _ => None,
    }
}

async fn listing(actor: &Addr<ConfigActor>, tenant: &str) -> (usize, BTreeSet<String>) {
    let param = ConfigQueryParam {
        tenant: Some(Arc::new(tenant.to_string())),
        limit: 1000,
        namespace_privilege: NamespacePrivilegeGroup::new(PrivilegeGroup::all()),
        ..Default::default()
    };
    match actor.send(ConfigCmd::QueryPageInfo(Box::new(param))).await {
        Ok(Ok(ConfigResult::ConfigInfoPage(total, list))) => (
            total,
            list.iter().map(|d| format!("{}/{}/{}", d.tenant, d.group, d.data_id)).collect(),
        ),
        _ => (usize::MAX, BTreeSet::new()),
    }
}

async fn one(hist: &serde_json::Value, mode: &str) -> Result<(), Fail> {
    let actor = ConfigActor::new().start();
    let mut store: BTreeMap<String, (ConfigKey, RefValue)> = BTreeMap::new();
    let mut listeners: Vec<Listener> = vec![];
    let mut floor_id: u64 = 0; // highest history-table id carried by a publish
    for (k, op) in hist["ops"].as_array().cloned().unwrap_or_default().iter().enumerate() {
        let name = op["op"].as_str().unwrap_or("");
        match name {
            "publish" => {
                let key = key_of(&op["key"]);
                let content = op["content"].as_str().unwrap_or("").to_string();
                let cmd = ConfigRaftCmd::ConfigAdd {
                    key: key.build_key(),
                    value: Arc::new(content.clone()),
                    config_type: opt_arc(&op["type"]),
                    desc: opt_arc(&op["desc"]),
                    history_id: op["history_id"].as_u64().unwrap_or(0),
                    history_table_id: op["history_table_id"].as_u64(),
                    op_time: op["op_time"].as_i64().unwrap_or(0),
                    op_user: None,
                };
                if let Some(t) = op["history_table_id"].as_u64() {
                    floor_id = std::cmp::max(floor_id, t);
                }
                actor.send(cmd).await.map_err(|e| Fail::Model(format!("op {}: mailbox: {}", k, e)))?.map_err(|e| Fail::Property(format!("op {}: publish fails: {}", k, e)))?;
                let e = store.entry(key_name(&key)).or_insert_with(|| (key.clone(), RefValue::default()));
                let changed = e.1.history.is_empty() || e.1.content != content || e.1.tmp;
                if let Some(t) = op["type"].as_str() {
                    e.1.config_type = Some(t.to_string());
                }
                if let Some(d) = op["desc"].as_str() {
                    e.1.desc = Some(d.to_string());
                }
                if changed {
                    e.1.history.push(content.clone());
                }
                e.1.content = content;
                e.1.tmp = false;
            }
            "remove" => {
                let key = key_of(&op["key"]);
                actor
                    .send(ConfigRaftCmd::ConfigRemove { key: key.build_key() })
                    .await
                    .map_err(|e| Fail::Model(format!("op {}: mailbox: {}", k, e)))?
                    .map_err(|e| Fail::Property(format!("op {}: remove fails: {}", k, e)))?;
                store.remove(&key_name(&key));
            }
            "tmp" => {
                let key = key_of(&op["key"]);
                let content = op["content"].as_str().unwrap_or("").to_string();
                let _ = actor.send(ConfigCmd::SetTmpValue(key.clone(), Arc::new(content.clone()))).await;
                let e = store.entry(key_name(&key)).or_insert_with(|| (key.clone(), RefValue::default()));
                e.1.content = content;
                e.1.tmp = true;
            }
            "listen" => {
                let keys: Vec<ConfigKey> = op["keys"].as_array().cloned().unwrap_or_default().iter().map(key_of).collect();
                let held: Vec<String> = op["held"].as_array().cloned().unwrap_or_default().iter().map(|x| real_md5(x.as_str().unwrap_or(""))).collect();
                let items: Vec<ListenerItem> = keys.iter().zip(held.iter()).map(|(kk, h)| ListenerItem::new(kk.clone(), Arc::new(h.clone()))).collect();
                let (tx, rx) = tokio::sync::oneshot::channel();
                // a deadline far in the future (the model's deadlines live on its own clock grid; ticks are not replayed natively)
                let deadline = if op["immediate"].as_bool().unwrap_or(false) { 0 } else { crate::common::datetime_utils::now_millis_i64() + 3_600_000 };
                let _ = actor.send(ConfigCmd::LISTENER(items, tx, deadline)).await;
                listeners.push(Listener { name: op["name"].as_str().unwrap_or("L").to_string(), keys, held, rx, answered: None, registered: false });
            }
            _ => return Err(Fail::Model(format!("op {}: unknown op {}", k, name))),
        }
        // ---- listeners: collect answers
        for l in listeners.iter_mut() {
            if l.answered.is_none() {
                match l.rx.try_recv() {
                    Ok(ListenerResult::DATA(keys)) => {
                        let mut ks: Vec<String> = keys.iter().map(key_name).collect();
                        ks.sort();
                        l.answered = Some(format!("DATA{:?}", ks));
                    }
                    Ok(ListenerResult::NULL) => l.answered = Some("NULL".to_string()),
                    Err(tokio::sync::oneshot::error::TryRecvError::Empty) => l.registered = true,
                    Err(tokio::sync::oneshot::error::TryRecvError::Closed) => l.answered = Some("DROPPED".to_string()),
                }
            }
        }
        // ---- C09 oracle
        for (name_, (key, want)) in store.iter() {
            let got = get(&actor, key).await;
            match got {
                None => return Err(Fail::Property(format!("op {}: GET {} returns nothing although it was published and not removed", k, name_))),
                Some((content, md5, ty, desc)) => {
                    if content != want.content {
                        return Err(Fail::Property(format!("op {}: GET {} returns content {:?}, the last publish wrote {:?}", k, name_, content, want.content)));
                    }
                    if md5 != crate::utils::get_md5(&content) {
                        return Err(Fail::Property(format!("op {}: GET {} returns an md5 that is not the md5 of the content it returns", k, name_)));
                    }
                    if !want.tmp && (ty != want.config_type.clone() || desc != want.desc) {
                        if want.config_type.is_some() && ty != want.config_type {
                            return Err(Fail::Property(format!("op {}: type served for {} is {:?}, the last published one is {:?}", k, name_, ty, want.config_type)));
                        }
                        if want.desc.is_some() && desc != want.desc {
                            return Err(Fail::Property(format!("op {}: description served for {} is {:?}, the last published one is {:?}", k, name_, desc, want.desc)));
                        }
                    }
                }
            }
        }
        let mut tenants: BTreeSet<String> = store.values().map(|(kk, _)| kk.tenant.to_string()).collect();
        tenants.insert("".to_string());
        for t in tenants {
            let (total, names) = listing(&actor, &t).await;
            let want: BTreeSet<String> = store.iter().filter(|(_, (kk, v))| kk.tenant.as_str() == t && !v.history.is_empty()).map(|(n_, _)| n_.clone()).collect();
            if names != want || total != want.len() {
                return Err(Fail::Property(format!("op {}: listing of tenant {:?} returns {:?} (total {}); the store holds {:?}", k, t, names, total, want)));
            }
        }
        // ---- C10 oracle (state form)
        for l in listeners.iter() {
            if l.answered.is_some() || !l.registered {
                continue;
            }
            for (kk, held) in l.keys.iter().zip(l.held.iter()) {
                let cur = match store.get(&key_name(kk)) {
                    Some((_, v)) if v.tmp => continue,
                    Some((_, v)) => crate::utils::get_md5(&v.content),
                    None => "".to_string(),
                };
                if &cur != held {
                    return Err(Fail::Property(format!(
                        "op {}: listener {} keeps waiting although the md5 it holds for {} differs from the stored one",
                        k,
                        l.name,
                        key_name(kk)
                    )));
                }
            }
        }
        // ---- validation against the encoding's state
        if mode == "validate" && op["model_state"].is_object() {
            let ms = &op["model_state"];
            if let Some(m) = ms["store"].as_object() {
                let model: BTreeMap<String, String> = m.iter().map(|(a, b)| (a.clone(), b["content"].as_str().unwrap_or("").to_string())).collect();
                let mut real: BTreeMap<String, String> = BTreeMap::new();
                for (n_, (kk, _)) in store.iter() {
                    if let Some((c, _, _, _)) = get(&actor, kk).await {
                        real.insert(n_.clone(), c);
                    }
                }
                if model != real {
                    return Err(Fail::Model(format!("op {}: stored contents are {:?} in the real code, {:?} in the encoding", k, real, model)));
                }
            }
            if let Some(m) = ms["listeners"].as_object() {
                for l in listeners.iter() {
                    if let Some(want) = m.get(&l.name) {
                        let w = want.as_str().map(|x| x.to_string());
                        let got = l.answered.clone().map(|a| if a.starts_with("DATA") { "DATA".to_string() } else { a });
                        if w != got {
                            return Err(Fail::Model(format!("op {}: listener {} is {:?} in the real code, {:?} in the encoding", k, l.name, got, w)));
                        }
                    }
                }
            }
        }
    }
    Ok(())
}
