//! Native side of engine S for C16 / C17: the real predicates of the running code (regexes, ignore
//! lists, role tables, actix route matcher) evaluated on concrete cases chosen by the solver.
//! mode "validate": the encoder's expectation must equal the real answer (translator validation);
//! mode "violation": every fact of the solver's counterexample must be confirmed by the real code,
//! only then is the violation reported.
#![allow(dead_code, unused_imports, clippy::all)]
#[cfg(not(kani))]
pub fn replay_file() {
    use std::sync::Arc;
    let path = std::env::var("VERIF_REPLAY").expect("VERIF_REPLAY not set");
    let txt = std::fs::read_to_string(&path).expect("replay file unreadable");
    let v: serde_json::Value = serde_json::from_str(&txt).expect("replay file not json");
    let mode = v["mode"].as_str().unwrap_or("validate").to_string();
    let message = v["message"].as_str().unwrap_or("engine S counterexample confirmed by the real predicates").to_string();
    let mut mismatches = 0usize;
    let mut n = 0usize;
    for c in v["cases"].as_array().cloned().unwrap_or_default() {
        let kind = c["kind"].as_str().unwrap_or("");
        let expect = c["expect"].as_bool().unwrap_or(false);
        let p = c["path"].as_str().unwrap_or("");
        let real = match kind {
            "api_check_path" => {
                use crate::openapi::middle::auth_middle::{API_PATH, IGNORE_PATH, R_NACOS_API_PATH};
                (API_PATH.is_match(p) || R_NACOS_API_PATH.is_match(p)) && !IGNORE_PATH.contains(&p)
            }
            "api_ignore_contains" => crate::openapi::middle::auth_middle::IGNORE_PATH.contains(&p),
            "console_check_path" => {
                use crate::console::middle::login_middle::{IGNORE_CHECK_LOGIN, STATIC_FILE_PATH};
                !IGNORE_CHECK_LOGIN.contains(&p) && !STATIC_FILE_PATH.is_match(p)
            }
            "console_ignore_contains" => crate::console::middle::login_middle::IGNORE_CHECK_LOGIN.contains(&p),
            "route_match_requoted" => {
                // what the router does: requote the raw path (actix_router::Url), then match the resource pattern
                let uri: actix_web::http::Uri = p.parse().expect("uri");
                let url = actix_web::dev::Url::new(uri);
                let r = actix_web::dev::ResourceDef::new(c["route"].as_str().unwrap_or(""));
                r.is_match(url.path())
            }
            "route_match" => {
                let r = actix_web::dev::ResourceDef::new(c["route"].as_str().unwrap_or(""));
                r.is_match(p)
            }
            "role_match" => {
                let roles: Vec<Arc<String>> = c["roles"]
                    .as_array()
                    .cloned()
                    .unwrap_or_default()
                    .iter()
                    .map(|x| Arc::new(x.as_str().unwrap_or("").to_string()))
                    .collect();
                crate::user::permission::UserRole::match_url_by_roles(&roles, p, c["method"].as_str().unwrap_or(""))
            }
            "ns_privilege" => {
                use crate::common::model::privilege::{NamespacePrivilegeGroup, PrivilegeGroup};
                use std::collections::HashSet;
                let set = |v: &serde_json::Value| -> Option<Arc<HashSet<Arc<String>>>> {
                    v.as_array().map(|a| Arc::new(a.iter().map(|x| Arc::new(x.as_str().unwrap_or("").to_string())).collect()))
                };
                let g = NamespacePrivilegeGroup::new(PrivilegeGroup {
                    enabled: true,
                    whitelist_is_all: c["whitelist_is_all"].as_bool().unwrap_or(false),
                    whitelist: set(&c["whitelist"]),
                    blacklist_is_all: c["blacklist_is_all"].as_bool().unwrap_or(false),
                    blacklist: set(&c["blacklist"]),
                });
                g.check_permission(&Arc::new(p.to_string()))
            }
            _ => panic!("VERIF-REPLAY-UNKNOWN-HARNESS case kind {}", kind),
        };
        n += 1;
        if real != expect {
            mismatches += 1;
            println!("VERIF-MISMATCH {} expect={} real={}", c, expect, real);
        }
    }
    if mode == "violation" {
        if mismatches == 0 && n > 0 {
            panic!("VERIF-REPLAY-CHECK-FAILED: {}", message);
        }
        println!("VERIF-REPLAY-PASSED covers=[] (counterexample not confirmed: {} of {} facts differ)", mismatches, n);
    } else {
        if mismatches > 0 {
            panic!("VERIF-VALIDATE-MISMATCH {} of {}", mismatches, n);
        }
        println!("VERIF-REPLAY-PASSED covers=[] validated={}", n);
    }
}
