//! Shared support for the solver harnesses (compiled only under cfg(kani) or cfg(rnacos_verif)).
//!
//! Every scenario is one function over an input source `Src`. Under Kani the source hands out
//! `kani::any()` values (symbolic); in the native replay build it hands out the concrete values the
//! solver chose, so a counterexample is re-executed against the ordinary build of the real code.
#![allow(dead_code, unused_macros, unused_imports)]

pub trait Src {
    fn u8(&mut self) -> u8;
    fn u16(&mut self) -> u16;
    fn u32(&mut self) -> u32;
    fn u64(&mut self) -> u64;
    fn i64(&mut self) -> i64;
    fn i32(&mut self) -> i32;
    fn usize(&mut self) -> usize;
    fn bool(&mut self) -> bool;
    /// precondition on the inputs drawn so far (kani::assume / replay: must hold)
    fn assume(&mut self, c: bool);
    /// reachability witness
    fn cover(&mut self, c: bool, name: &'static str);
    /// the property assertion
    fn check(&mut self, c: bool, msg: &'static str);
    /// classification of the current input (used to key known findings); native only
    fn tag(&mut self, name: &'static str);
}

#[cfg(kani)]
pub struct KSrc;

#[cfg(kani)]
impl Src for KSrc {
    fn u8(&mut self) -> u8 {
        kani::any()
    }
    fn u16(&mut self) -> u16 {
        kani::any()
    }
    fn u32(&mut self) -> u32 {
        kani::any()
    }
    fn u64(&mut self) -> u64 {
        kani::any()
    }
    fn i64(&mut self) -> i64 {
        kani::any()
    }
    fn i32(&mut self) -> i32 {
        kani::any()
    }
    fn usize(&mut self) -> usize {
        kani::any()
    }
    fn bool(&mut self) -> bool {
        kani::any()
    }
    fn assume(&mut self, c: bool) {
        kani::assume(c)
    }
    fn cover(&mut self, _c: bool, _name: &'static str) {
        // covers are written with the kani::cover! macro at the call site (vcover!) so that each has
        // its own source location; this method is the native no-op twin
    }
    fn check(&mut self, c: bool, msg: &'static str) {
        assert!(c, "{}", msg)
    }
    fn tag(&mut self, _name: &'static str) {}
}

/// reachability witness: kani::cover! under Kani (own location per call site), no-op natively
#[cfg(kani)]
macro_rules! vcover {
    ($s:expr, $c:expr, $name:literal) => {
        // VERIF_NOCOVER (compile-time env of the second playback attempt): Kani sometimes prints playback tests for the
        // satisfied covers only; without covers the failing assertion's test is the one it prints
        if option_env!("VERIF_NOCOVER").is_none() {
            kani::cover!($c, $name)
        }
    };
}
#[cfg(not(kani))]
macro_rules! vcover {
    ($s:expr, $c:expr, $name:literal) => {
        $s.cover($c, $name)
    };
}
pub(crate) use vcover;

/// the property assertion: kani assert! with a literal message (each call site is its own CBMC check with
/// its own description), `Src::check` natively
#[cfg(kani)]
macro_rules! vcheck {
    ($s:expr, $c:expr, $msg:literal) => {
        assert!($c, $msg)
    };
}
#[cfg(not(kani))]
macro_rules! vcheck {
    ($s:expr, $c:expr, $msg:literal) => {
        $s.check($c, $msg)
    };
}
pub(crate) use vcheck;

/// Native replay source: consumes the byte vectors of Kani's concrete playback in order.
#[cfg(not(kani))]
pub struct RSrc {
    pub vals: Vec<Vec<u8>>,
    pub pos: usize,
    pub failed: Vec<&'static str>,
    pub assume_broken: bool,
    pub covers: Vec<&'static str>,
}

#[cfg(not(kani))]
impl RSrc {
    pub fn new(vals: Vec<Vec<u8>>) -> Self {
        RSrc {
            vals,
            pos: 0,
            failed: vec![],
            assume_broken: false,
            covers: vec![],
        }
    }
    fn next(&mut self, n: usize) -> u64 {
        let v = if self.pos < self.vals.len() {
            self.vals[self.pos].clone()
        } else {
            vec![0u8; n]
        };
        self.pos += 1;
        let mut r = 0u64;
        for (i, b) in v.iter().enumerate().take(8) {
            r |= (*b as u64) << (8 * i);
        }
        r
    }
}

#[cfg(not(kani))]
impl Src for RSrc {
    fn u8(&mut self) -> u8 {
        self.next(1) as u8
    }
    fn u16(&mut self) -> u16 {
        self.next(2) as u16
    }
    fn u32(&mut self) -> u32 {
        self.next(4) as u32
    }
    fn u64(&mut self) -> u64 {
        self.next(8)
    }
    fn i64(&mut self) -> i64 {
        self.next(8) as i64
    }
    fn i32(&mut self) -> i32 {
        self.next(4) as u32 as i32
    }
    fn usize(&mut self) -> usize {
        self.next(8) as usize
    }
    fn bool(&mut self) -> bool {
        (self.next(1) & 1) == 1
    }
    fn assume(&mut self, c: bool) {
        if !c {
            self.assume_broken = true;
            // an input outside the harness precondition: nothing after this point is meaningful
            panic!("VERIF-REPLAY-ASSUME-BROKEN");
        }
    }
    fn cover(&mut self, c: bool, name: &'static str) {
        if c {
            self.covers.push(name);
        }
    }
    fn tag(&mut self, name: &'static str) {
        println!("VERIF-TAG {}", name);
    }
    fn check(&mut self, c: bool, msg: &'static str) {
        if !c {
            self.failed.push(msg);
            panic!("VERIF-REPLAY-CHECK-FAILED: {}", msg);
        }
    }
}

// ---------------------------------------------------------------------------------------------
// poll-once executor: under cfg(kani) the patched tokio completes every file operation
// immediately, so the unmodified async code of /repo runs to completion in one poll.
// Natively a current-thread tokio runtime with the real file system is used instead.
// ---------------------------------------------------------------------------------------------
#[cfg(kani)]
pub fn run<F: std::future::Future>(f: F) -> F::Output {
    use std::pin::Pin;
    use std::task::{Context, Poll, RawWaker, RawWakerVTable, Waker};
    fn clone(_: *const ()) -> RawWaker {
        RawWaker::new(std::ptr::null(), &VT)
    }
    fn noop(_: *const ()) {}
    static VT: RawWakerVTable = RawWakerVTable::new(clone, noop, noop, noop);
    let waker = unsafe { Waker::from_raw(RawWaker::new(std::ptr::null(), &VT)) };
    let mut cx = Context::from_waker(&waker);
    let mut f = Box::pin(f);
    match Pin::as_mut(&mut f).poll(&mut cx) {
        Poll::Ready(v) => v,
        Poll::Pending => panic!("verif: future pending under simfs"),
    }
}

#[cfg(not(kani))]
pub fn run<F: std::future::Future>(f: F) -> F::Output {
    let rt = tokio::runtime::Builder::new_current_thread()
        .enable_all()
        .build()
        .unwrap();
    rt.block_on(f)
}

#[cfg(kani)]
pub fn bt_stub() -> std::backtrace::Backtrace {
    std::backtrace::Backtrace::disabled()
}
#[cfg(kani)]
pub fn fmt_stub(_args: std::fmt::Arguments<'_>) -> String {
    String::new()
}

/// Dropping an anyhow::Error runs the drop glue of its (disabled) Backtrace through a boxed vtable;
/// CBMC cannot see the variant through the heap and unrolls the frame/symbol vectors (measured: the
/// whole time budget of the reader harnesses). Errors are leaked instead: no property observes them.
#[cfg(kani)]
pub fn anyhow_drop_stub(_e: &mut anyhow::Error) {}
