//! Native node-level scenarios for engine-S counterexamples about the raft file store and the state machine behind it
//! (C01 start-up orchestration, C08 receiving side of a snapshot installation).
//! A "node" is the real store actors (RaftIndexManager, RaftLogManager, RaftSnapshotManager, StateApplyManager) plus the real
//! state-machine components (ConfigActor, McpManager, NamespaceActor, ...), wired the way starter::config_factory wires them,
//! on a temp directory; it is driven through FileStore's RaftStorage methods, i.e. exactly what async-raft calls.
//!   scenario "install_then_serve":     leader: writes + compaction; follower: fresh node, snapshot installed through
//!                                      create_snapshot + finalize_snapshot_installation -> the follower must serve what the leader serves
//!   scenario "install_then_restart":   the same, then the follower restarts on its data directory -> must serve the same
//!   scenario "compaction_then_restart": writes + compaction, no later write, restart -> must serve the same
#![allow(dead_code, unused_imports, clippy::all)]
use std::sync::Arc;
use std::time::Duration;

use actix::prelude::*;
use async_raft_ext::raft::{Entry, EntryNormal, EntryPayload};
use async_raft_ext::RaftStorage;
use bean_factory::{BeanDefinition, BeanFactory};

use crate::cache::core::DirectCacheManager;
use crate::config::core::{ConfigActor, ConfigCmd, ConfigKey, ConfigResult};
use crate::mcp::core::McpManager;
use crate::mcp::model::actor_model::{McpManagerRaftReq, McpManagerReq, McpManagerResult};
use crate::mcp::model::mcp::McpServerParam;
use crate::namespace::NamespaceActor;
use crate::naming::core::NamingActor;
use crate::raft::db::table::TableManager;
use crate::raft::filestore::core::FileStore;
use crate::raft::filestore::raftapply::{StateApplyManager, StateApplyRequest, StateApplyResponse};
use crate::raft::filestore::raftdata::RaftDataHandler;
use crate::raft::filestore::raftindex::{RaftIndexManager, RaftIndexRequest, RaftIndexResponse};
use crate::raft::filestore::raftlog::RaftLogManager;
use crate::raft::filestore::raftsnapshot::RaftSnapshotManager;
use crate::raft::store::ClientRequest;
use crate::sequence::core::SequenceDbManager;

const KEY: &str = "verif-unique-key";

struct Node {
    store: FileStore,
    index: Addr<RaftIndexManager>,
    apply: Addr<StateApplyManager>,
    config: Addr<ConfigActor>,
    mcp: Addr<McpManager>,
    sequence: Addr<SequenceDbManager>,
}

async fn boot(dir: &std::path::Path) -> Node {
    let base = Arc::new(dir.to_string_lossy().into_owned());
    let index = RaftIndexManager::new(base.clone()).start();
    let log = RaftLogManager::new(base.clone(), Some(index.clone())).start();
    let snap = RaftSnapshotManager::new(base.clone(), Some(index.clone())).start();
    let apply = StateApplyManager::new().start();
    let config = ConfigActor::new().start();
    let mcp = McpManager::new().start();
    let sequence = SequenceDbManager::new().start();
    let data = Arc::new(RaftDataHandler {
        config: config.clone(),
        table: TableManager::new().start(),
        namespace: NamespaceActor::new(1).start(),
        sequence_db: sequence.clone(),
        mcp_manager: mcp.clone(),
        naming_actor: NamingActor::new().start(),
        direct_cache_manager: DirectCacheManager::new().start(),
    });
    let factory = BeanFactory::new();
    factory.register(BeanDefinition::actor_from_obj(index.clone()));
    factory.register(BeanDefinition::actor_from_obj(log.clone()));
    factory.register(BeanDefinition::actor_from_obj(snap.clone()));
    factory.register(BeanDefinition::from_obj(data));
    factory.register(BeanDefinition::actor_with_inject_from_obj(apply.clone()));
    factory.init().await;
    // the start-up chain runs in ctx.wait futures of the apply manager: once it answers, loading is over
    for _ in 0..200 {
        if let Ok(Ok(StateApplyResponse::LastAppliedLog(_))) = apply.send(StateApplyRequest::GetLastAppliedLog).await {
            break;
        }
        tokio::time::sleep(Duration::from_millis(20)).await;
    }
    tokio::time::sleep(Duration::from_millis(150)).await;
    let store = FileStore::new(1, index.clone(), snap, log, apply.clone());
    Node { store, index, apply, config, mcp, sequence }
}

async fn commit(node: &Node, index: u64, req: ClientRequest) {
    let entry = Entry { term: 1, index, payload: EntryPayload::Normal(EntryNormal { data: req.clone() }) };
    node.store.append_entry_to_log(&entry).await.expect("append");
    node.store.apply_entry_to_state_machine(&index, &req).await.expect("apply");
}

fn config_set(data_id: &str, value: &str, history_id: u64) -> ClientRequest {
    ClientRequest::ConfigSet {
        key: ConfigKey::new(data_id, "DEFAULT_GROUP", "").build_key(),
        value: Arc::new(value.to_owned()),
        config_type: None,
        desc: None,
        history_id,
        history_table_id: if history_id == 1 { Some(100) } else { None },
        op_time: 1_700_000_000_000 + history_id as i64,
        op_user: None,
    }
}

fn mcp_server() -> ClientRequest {
    ClientRequest::McpReq {
        req: McpManagerRaftReq::AddServer(McpServerParam {
            id: 7,
            unique_key: Some(Arc::new(KEY.to_owned())),
            value_id: 1,
            op_user: Arc::new("admin".to_owned()),
            update_time: 1_700_000_000_000,
            namespace: Some(Arc::new("".to_owned())),
            name: Some(Arc::new("verif-server".to_owned())),
            description: Some(Arc::new("d".to_owned())),
            auth_keys: Some(vec![Arc::new("k1".to_owned())]),
            ..Default::default()
        }),
    }
}

/// what a node serves for the data of the scenarios: (config value+md5, mcp server by id, mcp server by unique key)
#[derive(Debug, PartialEq, Clone)]
struct Served {
    /// value, md5, type, description, last-modified time
    config: Option<(String, String, Option<String>, Option<String>, i64)>,
    mcp_by_id: Option<(u64, String)>,
    mcp_by_key: Option<(u64, String)>,
}

async fn served(node: &Node) -> Served {
    let config = match node.config.send(ConfigCmd::GET(ConfigKey::new("a.yaml", "DEFAULT_GROUP", ""))).await {
        Ok(Ok(ConfigResult::Data { value, md5, config_type, desc, last_modified })) => {
            Some((value.to_string(), md5.to_string(), config_type.map(|e| e.to_string()), desc.map(|e| e.to_string()), last_modified))
        }
        _ => None,
    };
    let mcp_by_id = match node.mcp.send(McpManagerReq::GetServer(7)).await {
        Ok(Ok(McpManagerResult::ServerInfo(Some(s)))) => Some((s.id, s.name.to_string())),
        _ => None,
    };
    let mcp_by_key = match node.mcp.send(McpManagerReq::GetServerByKey(Arc::new(KEY.to_owned()))).await {
        Ok(Ok(McpManagerResult::ServerInfo(Some(s)))) => Some((s.id, s.name.to_string())),
        _ => None,
    };
    Served { config, mcp_by_id, mcp_by_key }
}

/// flush what was acknowledged, copy the data directory (the copy is what a new process finds), report (snapshot end, last applied)
async fn stop_and_copy(node: &Node, from: &std::path::Path, to: &std::path::Path) -> (u64, u64) {
    let _ = node.index.send(RaftIndexRequest::SaveHardState { current_term: 1, voted_for: 1 }).await;
    let info = match node.index.send(RaftIndexRequest::LoadIndexInfo).await {
        Ok(Ok(RaftIndexResponse::RaftIndexInfo { raft_index, last_applied_log })) => {
            (raft_index.snapshots.last().map(|e| e.end_index).unwrap_or(0), last_applied_log)
        }
        _ => (0, 0),
    };
    tokio::time::sleep(Duration::from_millis(700)).await; // log files are flushed by a 500 ms timer
    let _ = node.apply.send(StateApplyRequest::GetLastAppliedLog).await;
    for item in std::fs::read_dir(from).unwrap() {
        let item = item.unwrap();
        if item.file_name().to_string_lossy() == "db_lock" {
            continue;
        }
        if item.path().is_file() {
            std::fs::copy(item.path(), to.join(item.file_name())).unwrap();
        }
    }
    info
}

async fn leader_with_snapshot(dir: &std::path::Path) -> (Node, Served, u64, u64, Vec<u8>) {
    use tokio::io::AsyncReadExt;
    let leader = boot(dir).await;
    commit(&leader, 1, config_set("a.yaml", "a: 1", 1)).await;
    commit(&leader, 2, mcp_server()).await;
    commit(&leader, 3, config_set("a.yaml", "a: 2", 2)).await;
    let mut snapshot = leader.store.do_log_compaction().await.expect("compaction");
    let mut bytes = vec![];
    snapshot.snapshot.read_to_end(&mut bytes).await.unwrap();
    let on_leader = served(&leader).await;
    (leader, on_leader, snapshot.index, snapshot.term, bytes)
}


/// C04 across files (s04_4): the snapshot catalogue under a process death while a snapshot is completed. Real RaftIndexManager +
/// RaftSnapshotManager on a temp directory; `n` snapshots are built and completed. The disk image of a kill between the removal
/// of the outdated snapshot files and the rewrite of the catalogue = the index file as it was before the last CompleteSnapshot
/// + the snapshot files as they are after it. On that image the last catalogued snapshot must exist and be readable.
async fn snapshot_catalogue_crash_image(n: u64) -> Result<(), String> {
    use crate::raft::filestore::log::SnapshotRange;
    use crate::raft::filestore::model::{SnapshotHeaderDto, SnapshotRecordDto};
    use crate::raft::filestore::raftsnapshot::{RaftSnapshotRequest, RaftSnapshotResponse, SnapshotReader, SnapshotWriterRequest};
    let live = tempfile::tempdir().unwrap();
    let image = tempfile::tempdir().unwrap();
    let base = Arc::new(live.path().to_string_lossy().into_owned());
    let index = RaftIndexManager::new(base.clone()).start();
    let snap = RaftSnapshotManager::new(base.clone(), Some(index.clone())).start();
    tokio::time::sleep(Duration::from_millis(100)).await;
    let catalogue = |idx: Addr<RaftIndexManager>| async move {
        match idx.send(RaftIndexRequest::LoadIndexInfo).await {
            Ok(Ok(RaftIndexResponse::RaftIndexInfo { raft_index, .. })) => raft_index.snapshots,
            _ => vec![],
        }
    };
    for k in 1..=n {
        let header = SnapshotHeaderDto { last_index: k * 10, last_term: 1, member: vec![1], member_after_consensus: vec![], node_addrs: Default::default() };
        let (writer, id) = match snap.send(RaftSnapshotRequest::NewSnapshot(header)).await {
            Ok(Ok(RaftSnapshotResponse::NewSnapshot(w, id, _))) => (w, id),
            _ => return Err("MODEL: NewSnapshot refused".to_string()),
        };
        let rec = SnapshotRecordDto { tree: Arc::new("t".to_owned()), key: k.to_be_bytes().to_vec(), value: vec![7u8; 16], op_type: 0 };
        writer.send(SnapshotWriterRequest::Record(rec)).await.map_err(|e| format!("MODEL: {}", e))?.map_err(|e| format!("MODEL: {}", e))?;
        for _ in 0..2 {
            writer.send(SnapshotWriterRequest::Flush).await.map_err(|e| format!("MODEL: {}", e))?.map_err(|e| format!("MODEL: {}", e))?;
        }
        if k == n {
            // everything queued so far has reached the index file once the index actor answers
            let _ = catalogue(index.clone()).await;
            for item in std::fs::read_dir(live.path()).unwrap() {
                let item = item.unwrap();
                let name = item.file_name().to_string_lossy().into_owned();
                if item.path().is_file() && !name.starts_with("snapshot_") && name != "db_lock" {
                    std::fs::copy(item.path(), image.path().join(item.file_name())).unwrap();
                }
            }
        }
        snap.send(RaftSnapshotRequest::CompleteSnapshot(SnapshotRange { id, end_index: k * 10 }))
            .await
            .map_err(|e| format!("MODEL: {}", e))?
            .map_err(|e| format!("CompleteSnapshot fails: {}", e))?;
    }
    let after = catalogue(index.clone()).await;
    if after.last().map(|e| e.end_index) != Some(n * 10) {
        return Err(format!("after {} completed snapshots the catalogue is {:?}", n, after));
    }
    let mut left = vec![];
    for item in std::fs::read_dir(live.path()).unwrap() {
        let item = item.unwrap();
        let name = item.file_name().to_string_lossy().into_owned();
        if name.starts_with("snapshot_") {
            std::fs::copy(item.path(), image.path().join(item.file_name())).unwrap();
            left.push(name);
        }
    }
    left.sort();
    // a new process on the crash image
    let index2 = RaftIndexManager::new(Arc::new(image.path().to_string_lossy().into_owned())).start();
    let cat = catalogue(index2).await;
    if let Some(last) = cat.last() {
        let path = image.path().join(format!("snapshot_{}", last.id));
        if !path.exists() {
            return Err(format!(
                "process death between the removal of outdated snapshot files and the catalogue rewrite of snapshot {}: the on-disk catalogue {:?} ends with snapshot {} whose file is gone (snapshot files left: {:?})",
                n, cat.iter().map(|e| e.id).collect::<Vec<_>>(), last.id, left
            ));
        }
        let mut reader = SnapshotReader::init(&path.to_string_lossy()).await.map_err(|e| format!("the last catalogued snapshot does not open: {}", e))?;
        if reader.get_header().last_index != last.end_index {
            return Err(format!("the last catalogued snapshot's header names index {}, the catalogue {}", reader.get_header().last_index, last.end_index));
        }
        reader.read_record().await.map_err(|e| format!("the last catalogued snapshot is not readable: {}", e))?;
    } else if n > 1 {
        return Err("MODEL: the crash image has an empty catalogue".to_string());
    }
    Ok(())
}

/// C20 at the literal 1024-byte scale (s20_6): a snapshot whose records have the given value lengths is written by the real
/// SnapshotWriter and read back by the real SnapshotReader (1024-byte reads, 1024-byte buffer that doubles).
async fn snapshot_big_records(lens: Vec<usize>) -> Result<(), String> {
    use crate::raft::filestore::model::{SnapshotHeaderDto, SnapshotRecordDto};
    use crate::raft::filestore::raftsnapshot::{SnapshotReader, SnapshotWriter};
    let dir = tempfile::tempdir().unwrap();
    let path = dir.path().join("snap").to_string_lossy().into_owned();
    let header = SnapshotHeaderDto { last_index: 7, last_term: 3, member: vec![], member_after_consensus: vec![], node_addrs: Default::default() };
    let mut w = SnapshotWriter::init(&path, header).await.map_err(|e| format!("MODEL: writer init: {}", e))?;
    let mut written = vec![];
    for (i, n) in lens.iter().enumerate() {
        let value: Vec<u8> = (0..*n).map(|j| ((i * 37 + j * 11 + 5) % 251 + 1) as u8).collect();
        let rec = SnapshotRecordDto { tree: Arc::new("t".to_owned()), key: vec![i as u8 + 1], value, op_type: 0 };
        w.write_record(&rec).await.map_err(|e| format!("MODEL: write_record: {}", e))?;
        written.push(rec);
    }
    w.flush().await.map_err(|e| format!("MODEL: flush: {}", e))?;
    let mut r = SnapshotReader::init(&path).await.map_err(|e| format!("the snapshot file cannot be opened for reading: {}", e))?;
    for (i, want) in written.iter().enumerate() {
        match r.read_record().await {
            Ok(Some(got)) => {
                if got.key != want.key || got.value.len() != want.value.len() {
                    return Err(format!("value lengths {:?}: record {} is read back with key {:?} and a value of {} bytes", lens, i, got.key, got.value.len()));
                }
                if let Some(off) = (0..want.value.len()).find(|j| got.value[*j] != want.value[*j]) {
                    return Err(format!("value lengths {:?}: record {} is read back with other bytes than were written (first at offset {} of its value)", lens, i, off));
                }
            }
            Ok(None) => return Err(format!("value lengths {:?}: {} records are read back, {} were written", lens, i, written.len())),
            Err(e) => return Err(format!("value lengths {:?}: reading fails after {} of {} records: {}", lens, i, written.len(), e)),
        }
    }
    match r.read_record().await {
        Ok(None) => Ok(()),
        Ok(Some(_)) => Err(format!("value lengths {:?}: a record is read back that was not written", lens)),
        Err(e) => Err(format!("value lengths {:?}: reading fails behind the last record: {}", lens, e)),
    }
}


/// C20 (s20_7): a real InstanceMetaRepository on a temp directory; records with metadata values of the given lengths are written
/// (update_metadata), a second repository on the same directory loads the file map and reads them back (get_metadata).
async fn metadata_file(lens: Vec<usize>) -> Result<(), String> {
    use crate::naming::instance_meta_repository::{InstanceMetaDto, InstanceMetaRepository};
    use crate::naming::model::{InstanceShortKey, ServiceKey};
    let dir = tempfile::tempdir().unwrap();
    let base = dir.path().to_string_lossy().into_owned();
    let skey = ServiceKey::new("public", "g", "svc");
    let mut repo = InstanceMetaRepository::new(base.clone()).await.map_err(|e| format!("MODEL: repository: {}", e))?;
    let mut written = vec![];
    for (i, n) in lens.iter().enumerate() {
        let value: String = (0..*n).map(|j| (((i * 37 + j * 11 + 5) % 95 + 32) as u8) as char).collect();
        let mut md = std::collections::HashMap::new();
        md.insert("k".to_string(), value);
        written.push(InstanceMetaDto::new(skey.clone(), InstanceShortKey { ip: Arc::new(format!("1.1.1.{}", i + 1)), port: 8000 + i as u32 }, Arc::new(md)));
    }
    repo.update_metadata(&skey, written.clone()).await.map_err(|e| format!("value lengths {:?}: writing the metadata file fails: {}", lens, e))?;
    let again = InstanceMetaRepository::new(base).await.map_err(|e| format!("value lengths {:?}: the file map cannot be loaded: {}", lens, e))?;
    let got = again.get_metadata(&skey).await.map_err(|e| format!("value lengths {:?}: reading the metadata file fails: {}", lens, e))?;
    if got.len() != written.len() {
        return Err(format!("value lengths {:?}: {} records are read back, {} were written", lens, got.len(), written.len()));
    }
    for (i, (a, b)) in written.iter().zip(got.iter()).enumerate() {
        if a.instance_key.ip != b.instance_key.ip || a.instance_key.port != b.instance_key.port || a.metadata != b.metadata {
            return Err(format!(
                "value lengths {:?}: record {} is read back as another record (address {}:{}, value of {:?} bytes)",
                lens, i, b.instance_key.ip, b.instance_key.port, b.metadata.get("k").map(|v| v.len())
            ));
        }
    }
    Ok(())
}


/// C20 (s20_8): a real TransferWriter writes a header with one table name and records (odd ones named by table id) with values of the given
/// lengths; TransferReader (whole file in memory) and TransferFileReader (FileMessageReader over the file) must read exactly them back.
async fn transfer_file(lens: Vec<usize>, all_by_id: bool) -> Result<(), String> {
    use crate::transfer::model::{TransferHeaderDto, TransferRecordDto};
    use crate::transfer::reader::{reader_transfer_record, TransferFileReader, TransferReader};
    use crate::transfer::writer::TransferWriter;
    let dir = tempfile::tempdir().unwrap();
    let path = dir.path().join("tf").to_string_lossy().into_owned();
    let table = Arc::new("T_CONFIG".to_string());
    let mut header = TransferHeaderDto::new(1);
    header.add_name(table.clone());
    let mut w = TransferWriter::init(&path, header).await.map_err(|e| format!("MODEL: writer init: {}", e))?;
    let mut written = vec![];
    for (i, n) in lens.iter().enumerate() {
        let value: Vec<u8> = (0..*n).map(|j| ((i * 37 + j * 11 + 5) % 251 + 1) as u8).collect();
        let by_id = all_by_id || i % 2 == 1;
        let rec = TransferRecordDto { table_name: if by_id { None } else { Some(table.clone()) }, table_id: if by_id { 1 } else { 0 }, key: vec![i as u8 + 1], value };
        w.write_record(&rec).await.map_err(|e| format!("MODEL: write_record: {}", e))?;
        written.push(rec);
    }
    w.flush().await.map_err(|e| format!("MODEL: flush: {}", e))?;
    let data = std::fs::read(&path).map_err(|e| format!("MODEL: read file: {}", e))?;
    let mut r = TransferReader::new(data).map_err(|e| format!("value lengths {:?}: TransferReader cannot open the file: {}", lens, e))?;
    for (i, want) in written.iter().enumerate() {
        match r.read_record() {
            Ok(Some(got)) => {
                if got.table_name.as_str() != "T_CONFIG" || got.key.as_ref() != want.key.as_slice() || got.value.as_ref() != want.value.as_slice() {
                    return Err(format!("value lengths {:?}, TransferReader: record {} is read back as table {:?}, key {:?}, a value of {} bytes", lens, i, got.table_name, got.key, got.value.len()));
                }
            }
            Ok(None) => return Err(format!("value lengths {:?}, TransferReader: {} records are read back, {} were written", lens, i, written.len())),
            Err(e) => return Err(format!("value lengths {:?}, TransferReader: reading fails after {} of {} records: {}", lens, i, written.len(), e)),
        }
    }
    if let Ok(Some(_)) = r.read_record() {
        return Err(format!("value lengths {:?}, TransferReader: a record is read back that was not written", lens));
    }
    let mut fr = TransferFileReader::new(&path).await.map_err(|e| format!("value lengths {:?}: TransferFileReader cannot open the file: {}", lens, e))?;
    let mut n = 0;
    while let Ok(Some(vec)) = fr.read_record_vec().await {
        if n >= written.len() {
            return Err(format!("value lengths {:?}, TransferFileReader: a record is read back that was not written", lens));
        }
        let got = reader_transfer_record(&vec, &fr.header).map_err(|e| format!("value lengths {:?}, TransferFileReader: record {} cannot be decoded: {}", lens, n, e))?;
        let want = &written[n];
        if got.table_name.as_str() != "T_CONFIG" || got.key.as_ref() != want.key.as_slice() || got.value.as_ref() != want.value.as_slice() {
            return Err(format!("value lengths {:?}, TransferFileReader: record {} is read back as table {:?}, key {:?}, a value of {} bytes", lens, n, got.table_name, got.key, got.value.len()));
        }
        n += 1;
    }
    if n != written.len() {
        return Err(format!("value lengths {:?}, TransferFileReader: {} records are read back, {} were written", lens, n, written.len()));
    }
    Ok(())
}

thread_local! {
    /// operation list of the replay file (scenarios that replay a solver history read it)
    static OPS: std::cell::RefCell<Vec<serde_json::Value>> = std::cell::RefCell::new(vec![]);
}

/// C05 at the level async-raft sees (s05_4): save_hard_state / membership saves on a real node, get_initial_state after every step and
/// after a restart on a copy of the data directory must report the last acknowledged hard state and membership.
async fn filestore_hard_state() -> Result<(), String> {
    use async_raft_ext::storage::HardState;
    let ops: Vec<serde_json::Value> = OPS.with(|o| o.borrow().clone());
    let d1 = tempfile::tempdir().unwrap();
    let d2 = tempfile::tempdir().unwrap();
    let node = boot(d1.path()).await;
    let mut want: (u64, Option<u64>) = (0, None);
    let mut members: Vec<u64> = vec![];
    let mut joint: Option<Vec<u64>> = None;
    let check_joint = |st: &async_raft_ext::storage::InitialState, joint: &Option<Vec<u64>>, at: String| -> Result<(), String> {
        let got: Option<Vec<u64>> = st.membership.members_after_consensus.as_ref().map(|s| {
            let mut v: Vec<u64> = s.iter().cloned().collect();
            v.sort();
            v
        });
        if &got != joint {
            return Err(format!("{}: get_initial_state reports the joint half (members after consensus) {:?}, the last acknowledged membership save has {:?}", at, got, joint));
        }
        Ok(())
    };
    let check = |st: &async_raft_ext::storage::InitialState, want: &(u64, Option<u64>), members: &Vec<u64>, at: String| -> Result<(), String> {
        if st.hard_state.current_term != want.0 {
            return Err(format!("{}: get_initial_state reports term {}, the last acknowledged save has {}", at, st.hard_state.current_term, want.0));
        }
        if st.hard_state.voted_for != want.1 {
            return Err(format!("{}: get_initial_state reports vote {:?}, the last acknowledged save has {:?}", at, st.hard_state.voted_for, want.1));
        }
        let mut got: Vec<u64> = st.membership.members.iter().cloned().collect();
        got.sort();
        if !members.is_empty() && &got != members {
            return Err(format!("{}: get_initial_state reports members {:?}, {:?} were acknowledged", at, got, members));
        }
        Ok(())
    };
    for (k, op) in ops.iter().enumerate() {
        match op["op"].as_str().unwrap_or("") {
            "save-hard-state" => {
                let hs = HardState { current_term: op["term"].as_u64().unwrap_or(0), voted_for: op["vote"].as_u64() };
                node.store.save_hard_state(&hs).await.map_err(|e| format!("save_hard_state is answered with an error: {}", e))?;
                want = (hs.current_term, hs.voted_for);
            }
            "save-member" => {
                let mut addrs = std::collections::HashMap::new();
                addrs.insert(1u64, Arc::new("a:1".to_owned()));
                addrs.insert(2u64, Arc::new("b:2".to_owned()));
                let mlist: Vec<u64> = op["member"].as_array().map(|a| a.iter().filter_map(|x| x.as_u64()).collect()).unwrap_or_else(|| vec![1, 2]);
                let jl: Option<Vec<u64>> = op["member_after_consensus"].as_array().map(|a| a.iter().filter_map(|x| x.as_u64()).collect());
                if jl.is_some() {
                    joint = jl.clone();
                }
                node.index
                    .send(RaftIndexRequest::SaveMember { member: mlist.clone(), member_after_consensus: jl, node_addr: Some(addrs) })
                    .await
                    .map_err(|e| format!("MODEL: {}", e))?
                    .map_err(|e| format!("a membership save is answered with an error: {}", e))?;
                members = mlist;
            }
            other => return Err(format!("MODEL: unknown op {}", other)),
        }
        let st = node.store.get_initial_state().await.map_err(|e| format!("get_initial_state fails: {}", e))?;
        check(&st, &want, &members, format!("same process, after step {}", k + 1))?;
        check_joint(&st, &joint, format!("same process, after step {}", k + 1))?;
    }
    tokio::time::sleep(Duration::from_millis(100)).await;
    for item in std::fs::read_dir(d1.path()).unwrap() {
        let item = item.unwrap();
        if item.file_name().to_string_lossy() != "db_lock" && item.path().is_file() {
            std::fs::copy(item.path(), d2.path().join(item.file_name())).unwrap();
        }
    }
    let restarted = boot(d2.path()).await;
    let st = restarted.store.get_initial_state().await.map_err(|e| format!("get_initial_state fails after the restart: {}", e))?;
    check_joint(&st, &joint, "after restart".to_string())?;
    check(&st, &want, &members, "after restart".to_string())
}

/// C19 (s19_6): a history of committed sequence requests on a real SequenceDbManager actor; "restart" writes its table through a real
/// SnapshotWriterActor, reads the file back with the real SnapshotReader and loads the records into a fresh actor.
async fn sequence_table_history() -> Result<(), String> {
    use crate::raft::filestore::model::SnapshotHeaderDto;
    use crate::raft::filestore::raftapply::RaftApplyDataRequest;
    use crate::raft::filestore::raftsnapshot::{SnapshotReader, SnapshotWriterActor, SnapshotWriterRequest};
    use crate::sequence::model::{SequenceRaftReq, SequenceRaftResult};
    let ops: Vec<serde_json::Value> = OPS.with(|o| o.borrow().clone());
    let dir = tempfile::tempdir().unwrap();
    let mut actor = SequenceDbManager::new().start();
    let mut last_end: std::collections::HashMap<String, u64> = Default::default();
    let mut snaps = 0;
    for (k, op) in ops.iter().enumerate() {
        let key = Arc::new(op["key"].as_str().unwrap_or("").to_owned());
        match op["op"].as_str().unwrap_or("") {
            "restart" => {
                snaps += 1;
                let path = Arc::new(dir.path().join(format!("seq_snapshot_{}", snaps)).to_string_lossy().into_owned());
                let header = SnapshotHeaderDto { last_index: 1, last_term: 1, member: vec![1], member_after_consensus: vec![], node_addrs: Default::default() };
                let writer = SnapshotWriterActor::new(path.clone(), header).start();
                actor.send(RaftApplyDataRequest::BuildSnapshot(writer.clone())).await.map_err(|e| format!("MODEL: {}", e))?.map_err(|e| format!("building the snapshot of the sequence table fails: {}", e))?;
                for _ in 0..2 {
                    writer.send(SnapshotWriterRequest::Flush).await.map_err(|e| format!("MODEL: {}", e))?.map_err(|e| format!("MODEL: {}", e))?;
                }
                let fresh = SequenceDbManager::new().start();
                let mut reader = SnapshotReader::init(&path).await.map_err(|e| format!("MODEL: reader: {}", e))?;
                while let Some(rec) = reader.read_record().await.map_err(|e| format!("MODEL: read_record: {}", e))? {
                    fresh.send(RaftApplyDataRequest::LoadSnapshotRecord(rec)).await.map_err(|e| format!("MODEL: {}", e))?.map_err(|e| format!("loading a snapshot record of the sequence table fails: {}", e))?;
                }
                let _ = fresh.send(RaftApplyDataRequest::LoadCompleted).await;
                actor = fresh;
            }
            "set" => {
                let _ = actor.send(SequenceRaftReq::SetId(key.clone(), op["value"].as_u64().unwrap_or(1))).await;
                last_end.remove(key.as_str());
            }
            "remove" => {
                let _ = actor.send(SequenceRaftReq::RemoveId(key.clone())).await;
                last_end.remove(key.as_str());
            }
            name @ ("next" | "range") => {
                let req = if name == "next" { SequenceRaftReq::NextId(key.clone()) } else { SequenceRaftReq::NextRange(key.clone(), op["step"].as_u64().unwrap_or(1)) };
                let (start, len) = match actor.send(req).await {
                    Ok(Ok(SequenceRaftResult::NextId(id))) => (id, 1),
                    Ok(Ok(SequenceRaftResult::NextRange { start, len })) => (start, len),
                    _ => return Err(format!("op {}: the request is not answered with an id / a range", k)),
                };
                if start == 0 {
                    return Err(format!("op {}: id 0 is handed out", k));
                }
                if let Some(end) = last_end.get(key.as_str()) {
                    if start < *end {
                        return Err(format!(
                            "op {}: key {}: the answer [{}, {}) starts below the end {} of the previous one: an id is issued twice (or ids go backwards)",
                            k, key, start, start + len, end
                        ));
                    }
                }
                last_end.insert(key.to_string(), start + len);
            }
            other => return Err(format!("MODEL: unknown op {}", other)),
        }
    }
    Ok(())
}


/// C01 (s01_6): a history of committed naming requests on a real NamingActor; its table is written through a real SnapshotWriterActor,
/// read back with the real SnapshotReader and loaded into a fresh actor: the persistent instances must be the same, field by field.
async fn naming_snapshot_history() -> Result<(), String> {
    use crate::naming::model::actor_model::{InstanceRegisterParam, NamingRaftReq};
    use crate::naming::core::{NamingCmd, NamingResult};
    use crate::naming::model::{InstanceKey, ServiceKey};
    use crate::raft::filestore::model::SnapshotHeaderDto;
    use crate::raft::filestore::raftapply::RaftApplyDataRequest;
    use crate::raft::filestore::raftsnapshot::{SnapshotReader, SnapshotWriterActor, SnapshotWriterRequest};
    let ops: Vec<serde_json::Value> = OPS.with(|o| o.borrow().clone());
    let dir = tempfile::tempdir().unwrap();
    let actor = NamingActor::new().start();
    let skey = ServiceKey::new("public", "g", "svc");
    for (k, op) in ops.iter().enumerate() {
        let port = op["port"].as_u64().unwrap_or(1) as u32;
        let req = match op["op"].as_str().unwrap_or("") {
            "remove" => NamingRaftReq::RemoveInstance(InstanceKey::new_by_service_key(&skey, Arc::new("1.1.1.1".to_string()), port)),
            name @ ("register" | "update") => {
                let mut param = InstanceRegisterParam::default();
                param.ip = Arc::new("1.1.1.1".to_string());
                param.port = port;
                param.weight = op["weight"].as_f64().unwrap_or(1.0) as f32;
                param.enabled = op["enabled"].as_bool().unwrap_or(true);
                param.healthy = op["healthy"].as_bool().unwrap_or(true);
                param.ephemeral = false;
                param.metadata = Arc::new(op["metadata"].as_object().map(|m| m.iter().map(|(a, b)| (a.clone(), b.as_str().unwrap_or("").to_string())).collect()).unwrap_or_default());
                param.namespace_id = Arc::new("public".to_string());
                param.group_name = Arc::new("g".to_string());
                param.service_name = Arc::new("svc".to_string());
                param.cluster_name = op["cluster_name"].as_str().map(|x| x.to_string());
                param.app_name = op["app_name"].as_str().map(|x| x.to_string());
                param.last_modified_millis = 1000;
                if name == "register" {
                    NamingRaftReq::RegisterInstance { param }
                } else {
                    NamingRaftReq::UpdateInstance { param }
                }
            }
            other => return Err(format!("MODEL: unknown op {}", other)),
        };
        actor.send(req).await.map_err(|e| format!("MODEL: {}", e))?.map_err(|e| format!("op {}: a committed naming request is answered with an error: {}", k, e))?;
    }
    let path = Arc::new(dir.path().join("naming_snapshot_1").to_string_lossy().into_owned());
    let header = SnapshotHeaderDto { last_index: 1, last_term: 1, member: vec![1], member_after_consensus: vec![], node_addrs: Default::default() };
    let writer = SnapshotWriterActor::new(path.clone(), header).start();
    actor.send(RaftApplyDataRequest::BuildSnapshot(writer.clone())).await.map_err(|e| format!("MODEL: {}", e))?.map_err(|e| format!("building the snapshot of the naming component fails: {}", e))?;
    for _ in 0..2 {
        writer.send(SnapshotWriterRequest::Flush).await.map_err(|e| format!("MODEL: {}", e))?.map_err(|e| format!("MODEL: {}", e))?;
    }
    let fresh = NamingActor::new().start();
    let mut reader = SnapshotReader::init(&path).await.map_err(|e| format!("MODEL: reader: {}", e))?;
    while let Some(rec) = reader.read_record().await.map_err(|e| format!("MODEL: read_record: {}", e))? {
        fresh.send(RaftApplyDataRequest::LoadSnapshotRecord(rec)).await.map_err(|e| format!("MODEL: {}", e))?.map_err(|e| format!("loading a snapshot record of the naming component fails: {}", e))?;
    }
    let _ = fresh.send(RaftApplyDataRequest::LoadCompleted).await;
    let list = |a: Addr<NamingActor>| {
        let skey = skey.clone();
        async move {
            match a.send(NamingCmd::QueryAllInstanceList(skey)).await {
                Ok(Ok(NamingResult::InstanceList(l))) => Ok(l),
                _ => Err("MODEL: QueryAllInstanceList is not answered".to_string()),
            }
        }
    };
    let live: Vec<_> = list(actor.clone()).await?.into_iter().filter(|i| !i.ephemeral).collect();
    let back = list(fresh.clone()).await?;
    for i in &live {
        let b = match back.iter().find(|b| b.ip == i.ip && b.port == i.port) {
            Some(b) => b,
            None => return Err(format!("the persistent instance at address {} is missing after a restart from the snapshot", i.port)),
        };
        let mut diff = vec![];
        if b.weight != i.weight {
            diff.push(format!("weight ({} before, {} after)", i.weight, b.weight));
        }
        if b.enabled != i.enabled {
            diff.push(format!("enabled ({} before, {} after)", i.enabled, b.enabled));
        }
        if b.healthy != i.healthy {
            diff.push(format!("healthy ({} before, {} after)", i.healthy, b.healthy));
        }
        if b.ephemeral != i.ephemeral {
            diff.push("ephemeral".to_string());
        }
        if b.metadata != i.metadata {
            diff.push(format!("metadata ({:?} before, {:?} after)", i.metadata, b.metadata));
        }
        if b.cluster_name != i.cluster_name {
            diff.push(format!("cluster_name ({} before, {} after)", i.cluster_name, b.cluster_name));
        }
        if b.app_name != i.app_name {
            diff.push(format!("app_name ({} before, {} after)", i.app_name, b.app_name));
        }
        if b.namespace_id != i.namespace_id || b.group_name != i.group_name || b.service_name != i.service_name {
            diff.push("service key".to_string());
        }
        if !diff.is_empty() {
            return Err(format!("the persistent instance at address {} comes back from the snapshot with another {}", i.port, diff.join(", ")));
        }
    }
    for b in &back {
        if !live.iter().any(|i| b.ip == i.ip && b.port == i.port) {
            return Err(format!("an instance at address {} appears after a restart from the snapshot that the node did not hold", b.port));
        }
    }
    Ok(())
}

/// C01 (s01_2, catalogue with an older snapshot): writes, a compaction, non-idempotent writes (sequence NextId), a second compaction, one more
/// write, restart: the entries between the two snapshot ends must not be applied again - the sequence counter the restarted node hands out next
/// is the one the live node hands out next.
async fn two_compactions_then_restart() -> Result<(), String> {
    use crate::sequence::model::{SequenceRaftReq, SequenceRaftResult};
    let d1 = tempfile::tempdir().unwrap();
    let d2 = tempfile::tempdir().unwrap();
    let node = boot(d1.path()).await;
    let key = Arc::new("verif-seq".to_owned());
    let next = |k: &Arc<String>| ClientRequest::SequenceReq { req: SequenceRaftReq::NextId(k.clone()) };
    commit(&node, 1, next(&key)).await;
    commit(&node, 2, config_set("a.yaml", "a: 1", 1)).await;
    commit(&node, 3, next(&key)).await;
    let first = node.store.do_log_compaction().await.map_err(|e| format!("MODEL: first compaction: {}", e))?;
    commit(&node, 4, next(&key)).await;
    commit(&node, 5, next(&key)).await;
    let second = node.store.do_log_compaction().await.map_err(|e| format!("MODEL: second compaction: {}", e))?;
    commit(&node, 6, next(&key)).await;
    if first.index != 3 || second.index != 5 {
        return Err(format!("MODEL: compactions end at {} and {}, expected 3 and 5", first.index, second.index));
    }
    let (end, applied) = stop_and_copy(&node, d1.path(), d2.path()).await;
    let restarted = boot(d2.path()).await;
    let probe = |n: &Node| n.sequence.send(SequenceRaftReq::NextId(key.clone()));
    let live = match probe(&node).await {
        Ok(Ok(SequenceRaftResult::NextId(v))) => v,
        _ => return Err("MODEL: the live node does not answer NextId".to_owned()),
    };
    let after = match probe(&restarted).await {
        Ok(Ok(SequenceRaftResult::NextId(v))) => v,
        _ => return Err("the restarted node does not answer NextId".to_owned()),
    };
    if live != 6 {
        return Err(format!("MODEL: the live node hands out {} after five NextId requests", live));
    }
    if after != live {
        return Err(format!(
            "two compactions (snapshot ends 3 and {}), last applied {}, restart: the next id of the sequence is {} on the restarted node, {} on the node that kept running (entries covered by the newest snapshot are applied again)",
            end, applied, after, live
        ));
    }
    Ok(())
}

async fn scenario(name: &str) -> Result<(), String> {
    use tokio::io::AsyncWriteExt;
    if name == "two_compactions_then_restart" {
        return two_compactions_then_restart().await;
    }
    if name == "naming_snapshot_history" {
        return naming_snapshot_history().await;
    }
    if name == "sequence_table_history" {
        return sequence_table_history().await;
    }
    if name == "filestore_hard_state" {
        return filestore_hard_state().await;
    }
    if let Some(l) = name.strip_prefix("transfer_file_") {
        return transfer_file(l.split('_').filter_map(|x| x.parse().ok()).collect(), l.ends_with("_ids")).await;
    }
    if let Some(l) = name.strip_prefix("metadata_file_") {
        return metadata_file(l.split('_').filter_map(|x| x.parse().ok()).collect()).await;
    }
    if let Some(l) = name.strip_prefix("snapshot_big_records_") {
        return snapshot_big_records(l.split('_').filter_map(|x| x.parse().ok()).collect()).await;
    }
    if let Some(n) = name.strip_prefix("snapshot_catalogue_crash_image_") {
        return snapshot_catalogue_crash_image(n.parse().unwrap_or(3)).await;
    }
    let d1 = tempfile::tempdir().unwrap();
    let d2 = tempfile::tempdir().unwrap();
    let d3 = tempfile::tempdir().unwrap();
    let (leader, on_leader, s_index, s_term, bytes) = leader_with_snapshot(d1.path()).await;
    if on_leader.config.is_none() || on_leader.mcp_by_key.is_none() || s_index != 3 {
        return Err(format!("MODEL: the scenario's own set-up did not take: leader serves {:?}, snapshot index {}", on_leader, s_index));
    }
    match name {
        "replicated_batch_fills_a_file" => {
            // C02: follower replication (one batch per call) across the end of a log file. The index area of a file holds about
            // 2000 entries (one per 128 records): ~259 000 small records fill it. Large batches up to shortly before that point,
            // then batches of one record - so that the record that fills the file is the last one of its batch.
            let node = boot(d2.path()).await;
            let mk = |i: u64| Entry { term: 1, index: i, payload: EntryPayload::Normal(EntryNormal { data: ClientRequest::ConfigRemove { key: "k".to_string() } }) };
            let mut next: u64 = 1;
            while next < 258_001 {
                let batch: Vec<Entry<ClientRequest>> = (next..next + 1000).map(mk).collect();
                node.store.replicate_to_log(&batch).await.map_err(|e| format!("MODEL: bulk replicate at {}: {}", next, e))?;
                next += 1000;
            }
            let files = |n: &Node| {
                let idx = n.index.clone();
                async move {
                    match idx.send(RaftIndexRequest::LoadIndexInfo).await {
                        Ok(Ok(RaftIndexResponse::RaftIndexInfo { raft_index, .. })) => raft_index.logs.len(),
                        _ => 0,
                    }
                }
            };
            let mut rolled_at = 0u64;
            while next < 262_000 {
                let batch = vec![mk(next)];
                if let Err(e) = node.store.replicate_to_log(&batch).await {
                    return Err(format!(
                        "replicating entry {} as a batch of one record fails: {} (log files in the catalogue: {}): the record that fills a log file was the last one of its batch",
                        next, e, files(&node).await
                    ));
                }
                next += 1;
                if rolled_at == 0 && files(&node).await >= 2 {
                    rolled_at = next;
                    // a few more entries into the new file
                    for _ in 0..3 {
                        node.store.replicate_to_log(&vec![mk(next)]).await.map_err(|e| format!("replicating entry {} behind the rollover fails: {}", next, e))?;
                        next += 1;
                    }
                    break;
                }
            }
            if rolled_at == 0 {
                return Err("MODEL: no rollover within 262 000 entries".to_string());
            }
            let got = node.store.get_log_entries(rolled_at - 3, next).await.map_err(|e| format!("query across the rollover fails: {}", e))?;
            let idx: Vec<u64> = got.iter().map(|e| e.index).collect();
            let want: Vec<u64> = (rolled_at - 3..next).collect();
            if idx != want {
                return Err(format!("entries across the rollover at {}: {:?} are returned, {:?} were acknowledged", rolled_at, idx, want));
            }
        }
        "cut_at_first_index_of_a_file" | "cut_behind_pointer_installed_on_existing_log" => {
            // C03: the cut is exactly the position at which the file that holds it starts to serve entries - the first index of an ordinary
            // file, or the split-off position behind a snapshot pointer installed on a node that already had a log (delete_through inside its file)
            let node = boot(d2.path()).await;
            let blank = |i: u64, t: u64| Entry::<ClientRequest> { term: t, index: i, payload: EntryPayload::Blank };
            let cut: u64;
            if name == "cut_at_first_index_of_a_file" {
                let old: Vec<Entry<ClientRequest>> = (1..=5).map(|i| blank(i, 1)).collect();
                node.store.replicate_to_log(&old).await.map_err(|e| format!("MODEL: replicate: {}", e))?;
                cut = 1;
            } else {
                use tokio::io::AsyncWriteExt;
                let old: Vec<Entry<ClientRequest>> = (1..=8).map(|i| blank(i, 1)).collect();
                node.store.replicate_to_log(&old).await.map_err(|e| format!("MODEL: replicate: {}", e))?;
                let (id, mut file) = node.store.create_snapshot().await.map_err(|e| format!("MODEL: create_snapshot: {}", e))?;
                file.write_all(&bytes).await.unwrap();
                file.flush().await.unwrap();
                node.store.finalize_snapshot_installation(s_index, s_term, Some(s_index), id, file).await.map_err(|e| format!("MODEL: install: {}", e))?;
                cut = s_index + 1;
            }
            tokio::time::sleep(Duration::from_millis(100)).await;
            let before = node.store.get_log_entries(cut, cut + 3).await.map_err(|e| format!("MODEL: query: {}", e))?;
            if before.len() != 3 {
                return Err(format!("MODEL: the scenario's own set-up did not take: {} entries from index {}", before.len(), cut));
            }
            node.store.delete_logs_from(cut, None).await.map_err(|e| format!("delete_logs_from fails: {}", e))?;
            tokio::time::sleep(Duration::from_millis(100)).await;
            let after = node.store.get_log_entries(cut, cut + 6).await.map_err(|e| format!("query after the truncation fails: {}", e))?;
            if !after.is_empty() {
                return Err(format!(
                    "delete-from {} ({}): entries {:?} are still returned, nothing at or above the cut was to stay",
                    cut, if name == "cut_at_first_index_of_a_file" { "the first index of the log file" } else { "right behind the snapshot pointer installed on an existing log" },
                    after.iter().map(|e| e.index).collect::<Vec<_>>()
                ));
            }
            let fresh: Vec<Entry<ClientRequest>> = (cut..cut + 2).map(|i| blank(i, 2)).collect();
            node.store.replicate_to_log(&fresh).await.map_err(|e| format!("the append at the cut index {} is refused after the truncation: {}", cut, e))?;
            let last = node.store.get_log_entries(cut, cut + 2).await.map_err(|e| format!("query fails: {}", e))?;
            if last.len() != 2 || last.iter().any(|e| e.term != 2) {
                return Err(format!("the entries appended at the cut are not the ones returned: {:?}", last.iter().map(|e| (e.index, e.term)).collect::<Vec<_>>()));
            }
        }
        "truncate_behind_snapshot_pointer" | "truncate_behind_installed_snapshot" | "truncate_at_split_off_behind_snapshot_pointer" => {
            // C03 at the level of the log manager: the log catalogue starts with a snapshot pointer file (written by the second
            // compaction, or by a snapshot installation); a conflict truncation inside the current file must remove exactly the suffix
            let node;
            let base: u64;
            // cut right behind the pointer (the split-off position of the current file) or one entry further
            let keep: u64 = if name == "truncate_at_split_off_behind_snapshot_pointer" { 0 } else { 1 };
            if name != "truncate_behind_installed_snapshot" {
                node = leader; // entries 1..=3, first compaction done
                commit(&node, 4, config_set("a.yaml", "a: 4", 4)).await;
                commit(&node, 5, config_set("a.yaml", "a: 5", 5)).await;
                node.store.do_log_compaction().await.map_err(|e| format!("MODEL: second compaction: {}", e))?;
                base = 5;
            } else {
                use tokio::io::AsyncWriteExt;
                node = boot(d2.path()).await;
                let (id, mut file) = node.store.create_snapshot().await.map_err(|e| format!("MODEL: create_snapshot: {}", e))?;
                file.write_all(&bytes).await.unwrap();
                file.flush().await.unwrap();
                node.store.finalize_snapshot_installation(s_index, s_term, None, id, file).await.map_err(|e| format!("MODEL: install: {}", e))?;
                base = s_index;
            }
            for i in 1..=3u64 {
                let e = Entry { term: 1, index: base + i, payload: EntryPayload::Normal(EntryNormal { data: config_set("b.yaml", "b", base + i) }) };
                node.store.append_entry_to_log(&e).await.map_err(|e| format!("MODEL: append {}: {}", base + i, e))?;
            }
            tokio::time::sleep(Duration::from_millis(100)).await;
            let before = node.store.get_log_entries(base + 1, base + 4).await.map_err(|e| format!("MODEL: query: {}", e))?;
            if before.len() != 3 {
                return Err(format!("MODEL: the scenario's own set-up did not take: {} entries behind index {}", before.len(), base));
            }
            // the leader's log conflicts from base + 1 + keep on
            let cut = base + 1 + keep;
            node.store.delete_logs_from(cut, None).await.map_err(|e| format!("delete_logs_from fails: {}", e))?;
            tokio::time::sleep(Duration::from_millis(100)).await;
            let after = node.store.get_log_entries(base + 1, base + 4).await.map_err(|e| format!("query after the truncation fails: {}", e))?;
            let idx: Vec<u64> = after.iter().map(|e| e.index).collect();
            let want: Vec<u64> = (base + 1..cut).collect();
            if idx != want {
                return Err(format!(
                    "delete-from {} with a snapshot pointer file (index {}) at the head of the log catalogue: entries {:?} are still returned, {:?} were acknowledged and not removed",
                    cut, base, idx, want
                ));
            }
            let e = Entry { term: 2, index: cut, payload: EntryPayload::Normal(EntryNormal { data: config_set("b.yaml", "b2", cut) }) };
            node.store.append_entry_to_log(&e).await.map_err(|e| format!("the append at the cut index {} is refused after the truncation: {}", cut, e))?;
            let last = node.store.get_log_entries(cut, cut + 1).await.map_err(|e| format!("query fails: {}", e))?;
            if last.len() != 1 || last[0].term != 2 {
                return Err(format!("the entry appended at the cut index is not the one returned: {:?}", last.iter().map(|e| (e.index, e.term)).collect::<Vec<_>>()));
            }
        }
        "pointer_inside_file_then_reopen" => {
            // C02 / C03 at the catalogue level (s02_8): a snapshot pointer that falls inside the current log file; the entries it covers must stay
            // removed after a reopen (the split-off index of that file has to reach the saved catalogue)
            let node = boot(d2.path()).await;
            for i in 1..=6u64 {
                let e = Entry { term: 1, index: i, payload: EntryPayload::Normal(EntryNormal { data: config_set("b.yaml", "b", i) }) };
                node.store.append_entry_to_log(&e).await.map_err(|e| format!("MODEL: append {}: {}", i, e))?;
            }
            let (id, mut file) = node.store.create_snapshot().await.map_err(|e| format!("MODEL: create_snapshot: {}", e))?;
            file.write_all(&bytes).await.unwrap();
            file.flush().await.unwrap();
            node.store.finalize_snapshot_installation(s_index, s_term, Some(s_index), id, file).await.map_err(|e| format!("MODEL: install: {}", e))?;
            tokio::time::sleep(Duration::from_millis(200)).await;
            let live: Vec<u64> = node.store.get_log_entries(1, 7).await.map_err(|e| format!("MODEL: query: {}", e))?.iter().map(|e| e.index).collect();
            if live.iter().any(|i| *i < s_index) || !live.ends_with(&[4, 5, 6]) {
                return Err(format!("MODEL: the scenario's own set-up did not take: entries {:?} are readable behind a pointer at {}", live, s_index));
            }
            let (_e, _a) = stop_and_copy(&node, d2.path(), d3.path()).await;
            let restarted = boot(d3.path()).await;
            let after: Vec<u64> = restarted.store.get_log_entries(1, 7).await.map_err(|e| format!("query after the reopen fails: {}", e))?.iter().map(|e| e.index).collect();
            if after != live {
                return Err(format!(
                    "a snapshot pointer at {} falls inside the current log file: before the reopen entries {:?} are returned for [1, 7), after it {:?} - entries removed by the compaction come back",
                    s_index, live, after
                ));
            }
        }
        "cut_removes_whole_file_then_restart" => {
            // C03 across files (s03_3): a real rollover, then a conflict truncation whose cut lies below the start of the new current file (the file
            // goes as a whole), re-appends across the old file boundary, then a restart: the restarted node must show exactly the same log
            let node = boot(d2.path()).await;
            let mk = |i: u64, term: u64| Entry { term, index: i, payload: EntryPayload::Normal(EntryNormal { data: ClientRequest::ConfigRemove { key: "k".to_string() } }) };
            let files = |n: &Node| {
                let idx = n.index.clone();
                async move {
                    match idx.send(RaftIndexRequest::LoadIndexInfo).await {
                        Ok(Ok(RaftIndexResponse::RaftIndexInfo { raft_index, .. })) => raft_index.logs.iter().map(|l| (l.id, l.start_index)).collect::<Vec<_>>(),
                        _ => vec![],
                    }
                }
            };
            let mut next: u64 = 1;
            let mut boundary = 0u64;
            while next < 270_000 {
                let batch: Vec<Entry<ClientRequest>> = (next..next + 1000).map(|i| mk(i, 1)).collect();
                node.store.replicate_to_log(&batch).await.map_err(|e| format!("MODEL: bulk replicate at {}: {}", next, e))?;
                next += 1000;
                let f = files(&node).await;
                if f.len() >= 2 {
                    boundary = f[f.len() - 1].1;
                    break;
                }
            }
            if boundary == 0 {
                return Err("MODEL: no rollover within 270 000 entries".to_string());
            }
            let k = boundary - 5;
            node.store.delete_logs_from(k, None).await.map_err(|e| format!("delete_logs_from fails: {}", e))?;
            tokio::time::sleep(Duration::from_millis(100)).await;
            // ten re-appends of term 2: they cross the index at which the removed file began
            for i in 0..10u64 {
                node.store.append_entry_to_log(&mk(k + i, 2)).await.map_err(|e| format!("the append at {} (cut {}, old file boundary {}) is refused: {}", k + i, k, boundary, e))?;
            }
            tokio::time::sleep(Duration::from_millis(100)).await;
            let want: Vec<(u64, u64)> = (k - 3..k).map(|i| (i, 1)).chain((k..k + 10).map(|i| (i, 2))).collect();
            let live: Vec<(u64, u64)> = node.store.get_log_entries(k - 3, k + 20).await.map_err(|e| format!("query fails: {}", e))?.iter().map(|e| (e.index, e.term)).collect();
            if live != want {
                return Err(format!(
                    "delete-from {} removed the whole current file (it began at {}), then 10 appends: the running node returns {:?} for [{}, {}), acknowledged and not removed: {:?}",
                    k, boundary, live, k - 3, k + 20, want
                ));
            }
            let live_state = node.store.get_initial_state().await.map_err(|e| format!("MODEL: {}", e))?;
            let (_e, _a) = stop_and_copy(&node, d2.path(), d3.path()).await;
            let restarted = boot(d3.path()).await;
            let after: Vec<(u64, u64)> = restarted.store.get_log_entries(k - 3, k + 20).await.map_err(|e| format!("query after the restart fails: {}", e))?.iter().map(|e| (e.index, e.term)).collect();
            let st = restarted.store.get_initial_state().await.map_err(|e| format!("get_initial_state fails after the restart: {}", e))?;
            if after != want || st.last_log_index != live_state.last_log_index || st.last_log_term != live_state.last_log_term {
                return Err(format!(
                    "delete-from {} removed the whole current file (it began at {}), 10 appends, restart: the restarted node returns {:?} for [{}, {}) and reports last index / term {} / {}; before the restart {:?} and {} / {} (catalogue on disk: {:?})",
                    k, boundary, after, k - 3, k + 20, st.last_log_index, st.last_log_term, want, live_state.last_log_index, live_state.last_log_term, files(&restarted).await
                ));
            }
        }
        "install_after_interrupted_longer_transfer" => {
            // C08 (s08_3): a snapshot transfer is interrupted after more bytes than the next, complete transfer has (the receiver restarted in
            // between: nothing was catalogued, the snapshot id - and the file - are the same); the installed file must be the leader's stream
            let follower = boot(d2.path()).await;
            {
                let (_id, mut file) = follower.store.create_snapshot().await.map_err(|e| format!("MODEL: create_snapshot: {}", e))?;
                let mut longer = bytes.clone();
                longer.extend(std::iter::repeat(0x2au8).take(3000));
                file.write_all(&longer).await.unwrap();
                file.flush().await.unwrap();
            }
            let (id, mut file) = follower.store.create_snapshot().await.map_err(|e| format!("MODEL: create_snapshot (second transfer): {}", e))?;
            file.write_all(&bytes).await.unwrap();
            file.flush().await.unwrap();
            follower
                .store
                .finalize_snapshot_installation(s_index, s_term, None, id.clone(), file)
                .await
                .map_err(|e| format!("finalize_snapshot_installation fails: {}", e))?;
            tokio::time::sleep(Duration::from_millis(200)).await;
            let path = d2.path().join(format!("snapshot_{}", id));
            let on_disk = std::fs::read(&path).map_err(|e| format!("MODEL: installed snapshot file {:?}: {}", path, e))?;
            if on_disk != bytes {
                return Err(format!(
                    "a transfer of {} bytes was interrupted (receiver restarted), the next transfer of the same snapshot id has {} bytes: the installed snapshot file has {} bytes - the tail of the interrupted transfer is still in it",
                    bytes.len() + 3000, bytes.len(), on_disk.len()
                ));
            }
        }
        "three_paths_same_state" => {
            // C07: the same committed requests through (a) the leader's apply path (done by `leader` above: entries 1..=3),
            // (b) the follower's batch replication path, (c) start-up replay of the log on a restarted node
            let follower = boot(d2.path()).await;
            let reqs = vec![config_set("a.yaml", "a: 1", 1), mcp_server(), config_set("a.yaml", "a: 2", 2)];
            let entries: Vec<Entry<ClientRequest>> = reqs
                .iter()
                .enumerate()
                .map(|(i, r)| Entry { term: 1, index: i as u64 + 1, payload: EntryPayload::Normal(EntryNormal { data: r.clone() }) })
                .collect();
            follower.store.replicate_to_log(&entries).await.map_err(|e| format!("MODEL: replicate_to_log: {}", e))?;
            let idx: Vec<u64> = (1..=reqs.len() as u64).collect();
            let pairs: Vec<(&u64, &ClientRequest)> = idx.iter().zip(reqs.iter()).collect();
            follower.store.replicate_to_state_machine(&pairs).await.map_err(|e| format!("replicate_to_state_machine fails: {}", e))?;
            tokio::time::sleep(Duration::from_millis(200)).await;
            let on_follower = served(&follower).await;
            if on_follower != on_leader {
                return Err(format!("the same committed requests give {:?} through follower replication and {:?} through the leader's apply path", on_follower, on_leader));
            }
            // (b') the follower restarts: start-up replay of the batch it replicated must give the same state again
            let d5 = tempfile::tempdir().unwrap();
            let (_e, f_applied) = stop_and_copy(&follower, d2.path(), d5.path()).await;
            let f_restarted = boot(d5.path()).await;
            let f_after = served(&f_restarted).await;
            if f_after != on_leader {
                return Err(format!(
                    "a follower that replicated the committed requests as one batch serves {:?} after a restart (last applied index on disk {}); the leader serves {:?}",
                    f_after, f_applied, on_leader
                ));
            }
            // (c) is the leader's own log replayed after a restart - before any compaction, so take a second leader without one
            let l2 = boot(d3.path()).await;
            for (i, r) in reqs.iter().enumerate() {
                commit(&l2, i as u64 + 1, r.clone()).await;
            }
            let before = served(&l2).await;
            let d4 = tempfile::tempdir().unwrap();
            let (_end, applied) = stop_and_copy(&l2, d3.path(), d4.path()).await;
            let restarted = boot(d4.path()).await;
            let replayed = served(&restarted).await;
            if replayed != before || before != on_leader {
                return Err(format!(
                    "the same committed requests give {:?} through start-up replay (last applied {}) and {:?} through the leader's apply path",
                    replayed, applied, before
                ));
            }
        }
        "compaction_then_restart" => {
            let (end, applied) = stop_and_copy(&leader, d1.path(), d2.path()).await;
            let restarted = boot(d2.path()).await;
            let after = served(&restarted).await;
            if after != on_leader {
                return Err(format!(
                    "restart right after a compaction (snapshot end {}, last applied {}): served before {:?}, after the restart {:?}",
                    end, applied, on_leader, after
                ));
            }
        }
        "install_beyond_leftover_log_then_append" => {
            // C08 / C02: a follower that was down holds an old log that ends BELOW the leader's snapshot (entries 1..=2, snapshot at 3, delete_through None:
            // async-raft found no matching entry); after the installation replication goes on behind the snapshot: the append must be accepted,
            // the entries returned, and a restart must find them again
            let follower = boot(d2.path()).await;
            let blank = |i: u64, t: u64| Entry::<ClientRequest> { term: t, index: i, payload: EntryPayload::Blank };
            let old: Vec<Entry<ClientRequest>> = (1..=2).map(|i| blank(i, 1)).collect();
            follower.store.replicate_to_log(&old).await.map_err(|e| format!("MODEL: replicate: {}", e))?;
            let (id, mut file) = follower.store.create_snapshot().await.map_err(|e| format!("MODEL: create_snapshot: {}", e))?;
            file.write_all(&bytes).await.unwrap();
            file.flush().await.unwrap();
            follower.store.finalize_snapshot_installation(s_index, s_term, None, id, file).await.map_err(|e| format!("finalize_snapshot_installation fails: {}", e))?;
            tokio::time::sleep(Duration::from_millis(200)).await;
            let fresh: Vec<Entry<ClientRequest>> = (s_index + 1..s_index + 3).map(|i| blank(i, s_term)).collect();
            follower
                .store
                .replicate_to_log(&fresh)
                .await
                .map_err(|e| format!("a follower with an old log below the snapshot (entries 1..=2, snapshot installed at {}): the append behind the snapshot is refused: {}", s_index, e))?;
            let got = follower.store.get_log_entries(s_index + 1, s_index + 3).await.map_err(|e| format!("query behind the installed snapshot fails: {}", e))?;
            if got.len() != 2 {
                return Err(format!("entries appended behind the installed snapshot: {} of 2 are returned", got.len()));
            }
            let stale = follower.store.get_log_entries(1, 3).await.map(|v| v.len()).unwrap_or(0);
            if stale != 0 {
                return Err(format!("the old log entries below the installed snapshot are still returned ({} entries)", stale));
            }
            let (_end, _applied) = stop_and_copy(&follower, d2.path(), d3.path()).await;
            let restarted = boot(d3.path()).await;
            let again = restarted.store.get_log_entries(s_index + 1, s_index + 3).await.map_err(|e| format!("query after the restart fails: {}", e))?;
            if again.len() != 2 {
                return Err(format!("after a restart {} of the 2 entries appended behind the installed snapshot are returned", again.len()));
            }
        }
        "install_then_serve" | "install_then_restart" => {
            let follower = boot(d2.path()).await;
            let (id, mut file) = follower.store.create_snapshot().await.map_err(|e| format!("MODEL: create_snapshot: {}", e))?;
            file.write_all(&bytes).await.unwrap();
            file.flush().await.unwrap();
            follower
                .store
                .finalize_snapshot_installation(s_index, s_term, None, id, file)
                .await
                .map_err(|e| format!("finalize_snapshot_installation fails: {}", e))?;
            tokio::time::sleep(Duration::from_millis(300)).await;
            if name == "install_then_serve" {
                let live = served(&follower).await;
                if live != on_leader {
                    return Err(format!(
                        "a node caught up by snapshot installation (snapshot index {}) serves {:?}; the leader serves {:?}",
                        s_index, live, on_leader
                    ));
                }
            } else {
                let (end, applied) = stop_and_copy(&follower, d2.path(), d3.path()).await;
                let restarted = boot(d3.path()).await;
                let after = served(&restarted).await;
                if after != on_leader {
                    return Err(format!(
                        "snapshot installed (end {}), nothing applied since (last applied {}), restart: the node serves {:?}; the leader serves {:?}",
                        end, applied, after, on_leader
                    ));
                }
            }
        }
        _ => return Err(format!("MODEL: unknown scenario {}", name)),
    }
    Ok(())
}

pub fn replay_file() {
    let path = std::env::var("VERIF_REPLAY").expect("VERIF_REPLAY not set");
    let txt = std::fs::read_to_string(&path).expect("replay file unreadable");
    let v: serde_json::Value = serde_json::from_str(&txt).expect("replay file not json");
    let mode = v["mode"].as_str().unwrap_or("validate").to_string();
    OPS.with(|o| *o.borrow_mut() = v["ops"].as_array().cloned().unwrap_or_default());
    let names: Vec<String> = v["scenarios"].as_array().cloned().unwrap_or_default().iter().map(|x| x.as_str().unwrap_or("").to_string()).collect();
    let results: Vec<(String, Result<(), String>)> = actix_rt::System::new().block_on(async move {
        let mut out = vec![];
        for n in names {
            let r = scenario(&n).await;
            out.push((n, r));
        }
        out
    });
    for (n, r) in results.iter() {
        match r {
            Ok(()) => println!("VERIF-SCENARIO {} holds", n),
            Err(m) if m.starts_with("MODEL:") => panic!("VERIF-VALIDATE-MISMATCH scenario {}: {}", n, m),
            Err(m) => {
                println!("VERIF-TAG scenario-{}", n);
                if mode == "violation" {
                    panic!("VERIF-REPLAY-CHECK-FAILED: {}", m);
                }
                panic!("VERIF-VALIDATE-MISMATCH scenario {}: the real node breaks an expectation the encoding discharged: {}", n, m);
            }
        }
    }
    println!("VERIF-REPLAY-PASSED covers=[] scenarios={}", results.len());
}
