//! Native replay of engine-S counterexamples of rs2smt/c18sites.py (C18 at the console handlers' call sites).
//! A real single-node application; the named handler FUNCTION is called directly with a request that carries the session of a user
//! restricted to the namespace "allowed" (the session is what the login middleware puts into the request extensions) and with request
//! parameters that name the namespace "forbidden". The answer must be a refusal (401 / 403, or an ApiResult with NO_NAMESPACE_PERMISSION).
//! The two v2 config handlers that do check are the controls: if they are not refused the harness itself is wrong (MODEL).
#![allow(dead_code, unused_imports, clippy::all)]
use std::collections::HashSet;
use std::sync::Arc;
use std::time::Duration;

use actix_web::{web, HttpMessage, HttpRequest, HttpResponse, Responder};

use crate::common::appdata::AppShareData;
use crate::common::model::privilege::PrivilegeGroup;
use crate::common::model::UserSession;
use crate::common::AppSysConfig;
use crate::console::model::config_model::OpsConfigQueryListRequest;
use crate::console::model::mcp_server_model::McpServerQueryRequest;
use crate::console::model::mcp_tool_spec_model::{ToolSpecParams, ToolSpecQueryRequest};
use crate::starter::{build_share_data, config_factory};

fn restricted_request() -> HttpRequest {
    let req = actix_web::test::TestRequest::default().to_http_request();
    let mut wl = HashSet::new();
    wl.insert(Arc::new("allowed".to_owned()));
    let session = UserSession {
        username: Arc::new("scoped".to_owned()),
        nickname: None,
        roles: vec![],
        namespace_privilege: Some(PrivilegeGroup { enabled: true, whitelist_is_all: false, whitelist: Some(Arc::new(wl)), blacklist_is_all: false, blacklist: None }),
        extend_infos: Default::default(),
        refresh_time: 0,
    };
    req.extensions_mut().insert(Arc::new(session));
    req
}

async fn outcome<R: Responder>(r: R, req: &HttpRequest) -> (u16, String) {
    let resp: HttpResponse<_> = r.respond_to(req).map_into_boxed_body();
    let status = resp.status().as_u16();
    let bytes = actix_web::body::to_bytes(resp.into_body()).await.unwrap_or_default();
    let text: String = String::from_utf8_lossy(&bytes).chars().map(|c| if c.is_control() || c == '\u{fffd}' { '.' } else { c }).collect();
    (status, text)
}

fn refused(o: &(u16, String)) -> bool {
    o.0 == 401 || o.0 == 403 || o.1.contains("NO_NAMESPACE_PERMISSION") || o.1.contains("no such namespace permission")
}

fn tool_params() -> ToolSpecParams {
    ToolSpecParams { namespace: Arc::new("forbidden".to_owned()), group: Arc::new("g".to_owned()), tool_name: Arc::new("t".to_owned()), function: None, op_user: None }
}

async fn call(handler: &str, file: &str, app: &Arc<AppShareData>) -> Result<(u16, String), String> {
    let req = restricted_request();
    let data = web::Data::new(app.clone());
    let cfg_query = || OpsConfigQueryListRequest {
        page_no: Some(1),
        page_size: Some(10),
        tenant: Some("forbidden".to_owned()),
        group_param: None,
        data_param: None,
        group: Some("g".to_owned()),
        data_id: Some("d".to_owned()),
    };
    let v2 = file.contains("/v2/");
    Ok(match (handler, v2) {
        ("query_history_config_page", false) => {
            outcome(crate::console::config_api::query_history_config_page(req.clone(), web::Query(cfg_query()), web::Data::new(app.config_addr.clone())).await, &req).await
        }
        ("query_history_config_page", true) => {
            outcome(crate::console::v2::config_api::query_history_config_page(req.clone(), web::Query(cfg_query()), web::Data::new(app.config_addr.clone())).await, &req).await
        }
        ("query_mcp_server_list", _) => {
            let q = McpServerQueryRequest { page_no: Some(1), page_size: Some(10), namespace_id: Some("forbidden".to_owned()), name_filter: None };
            outcome(crate::console::v2::mcp_server_api::query_mcp_server_list(req.clone(), web::Query(q), data).await, &req).await
        }
        ("query_tool_spec_list", _) => {
            let q = ToolSpecQueryRequest { page_no: Some(1), page_size: Some(10), namespace_id: Some("forbidden".to_owned()), group_filter: None, tool_name_filter: None };
            outcome(crate::console::v2::mcp_tool_spec_api::query_tool_spec_list(req.clone(), web::Query(q), data).await, &req).await
        }
        ("get_tool_spec", _) => outcome(crate::console::v2::mcp_tool_spec_api::get_tool_spec(req.clone(), web::Query(tool_params()), data).await, &req).await,
        ("remove_tool_spec", _) => outcome(crate::console::v2::mcp_tool_spec_api::remove_tool_spec(req.clone(), data, web::Json(tool_params())).await, &req).await,
        ("update_tool_specs", _) => {
            outcome(crate::console::v2::mcp_tool_spec_api::update_tool_specs(req.clone(), data, web::Json(vec![tool_params()])).await, &req).await
        }
        ("add_or_update_tool_spec", _) => {
            outcome(crate::console::v2::mcp_tool_spec_api::add_or_update_tool_spec(req.clone(), data, web::Json(tool_params())).await, &req).await
        }
        ("download_mcp_servers", _) => {
            let q = McpServerQueryRequest { page_no: Some(1), page_size: Some(10), namespace_id: Some("forbidden".to_owned()), name_filter: None };
            outcome(crate::console::v2::mcp_server_api::download_mcp_servers(req.clone(), web::Query(q), data).await, &req).await
        }
        ("download_tool_specs", _) => {
            let q = ToolSpecQueryRequest { page_no: Some(1), page_size: Some(10), namespace_id: Some("forbidden".to_owned()), group_filter: None, tool_name_filter: None };
            outcome(crate::console::v2::mcp_tool_spec_api::download_tool_specs(req.clone(), web::Query(q), data).await, &req).await
        }
        ("add_mcp_server", _) | ("update_mcp_server", _) => {
            use crate::console::model::mcp_server_model::McpServerParams;
            let mut p = McpServerParams {
                id: None,
                unique_key: Some("verif-key".to_owned()),
                namespace: Some("forbidden".to_owned()),
                name: Some("verif-server".to_owned()),
                description: Some("d".to_owned()),
                auth_keys: Some(vec!["k1".to_owned()]),
                tools: Some(vec![]),
            };
            let added = outcome(crate::console::v2::mcp_server_api::add_mcp_server(req.clone(), data.clone(), web::Json(p.clone())).await, &req).await;
            if handler == "add_mcp_server" {
                added
            } else {
                // the server now exists in the forbidden namespace (the add above was served): change it with the same restricted session
                let id = serde_json::from_str::<serde_json::Value>(&added.1).ok().and_then(|v| v["data"].as_u64().or_else(|| v["data"]["id"].as_u64()));
                let id = match id {
                    Some(id) => id,
                    None => return Err(format!("MODEL: no server id in the answer of add_mcp_server: {}", &added.1[..added.1.len().min(200)])),
                };
                p.id = Some(id);
                p.description = Some("changed".to_owned());
                outcome(crate::console::v2::mcp_server_api::update_mcp_server(req.clone(), data, web::Json(p)).await, &req).await
            }
        }
        ("remove_config", true) => {
            // composed key: the handler checks the tenant field, the key travels as dataId U+0002 group U+0002 tenant and is split again on apply.
            // An administrator publishes a configuration in 'forbidden'; the restricted user removes "verif-d / G<U+0002>forbidden" in its own namespace 'allowed'.
            use crate::config::core::{ConfigCmd, ConfigKey, ConfigResult};
            use crate::console::model::config_model::ConfigParams;
            use crate::raft::cluster::model::SetConfigReq;
            let key = ConfigKey::new("verif-d", "G", "forbidden");
            app.config_route.set_config(SetConfigReq::new(key.clone(), Arc::new("secret-of-forbidden".to_owned()))).await.map_err(|e| format!("MODEL: publish: {}", e))?;
            let exists = |app: Arc<AppShareData>, key: ConfigKey| async move { matches!(app.config_addr.send(ConfigCmd::GET(key)).await, Ok(Ok(ConfigResult::Data { .. }))) };
            if !exists(app.clone(), key.clone()).await {
                return Err("MODEL: the configuration published into the forbidden namespace is not stored".to_string());
            }
            let p = ConfigParams {
                data_id: Arc::new("verif-d".to_owned()),
                group: Some(Arc::new("G\u{2}forbidden".to_owned())),
                tenant: Some("allowed".to_owned()),
                ..Default::default()
            };
            let o = outcome(crate::console::v2::config_api::remove_config(req.clone(), data, web::Json(p)).await, &req).await;
            tokio::time::sleep(Duration::from_millis(300)).await;
            if exists(app.clone(), key).await {
                (403, format!("NO_NAMESPACE_PERMISSION (the configuration of namespace 'forbidden' is untouched; the handler answered {} {})", o.0, &o.1[..o.1.len().min(80)]))
            } else {
                (200, "the configuration verif-d / G of namespace 'forbidden' is gone after remove_config(tenant 'allowed', group 'G<U+0002>forbidden')".to_string())
            }
        }
        ("download_config_by_keys", _) => {
            // export by key list (POST /rnacos/api/console/config/download): a configuration of the forbidden namespace is published first, then exported by its key
            use crate::config::core::ConfigKey;
            use crate::console::model::config_model::ConfigParams;
            use crate::raft::cluster::model::SetConfigReq;
            let key = ConfigKey::new("verif-d", "verif-g", "forbidden");
            app.config_route.set_config(SetConfigReq::new(key, Arc::new("secret-of-forbidden".to_owned()))).await.map_err(|e| format!("MODEL: publish: {}", e))?;
            tokio::time::sleep(Duration::from_millis(300)).await;
            let p = ConfigParams { data_id: Arc::new("verif-d".to_owned()), group: Some(Arc::new("verif-g".to_owned())), tenant: Some("forbidden".to_owned()), ..Default::default() };
            let o = outcome(crate::console::config_api::download_config_by_keys(req.clone(), web::Json(vec![p]), web::Data::new(app.config_addr.clone())).await, &req).await;
            if o.0 == 200 {
                (200, format!("a zip export of {} bytes is returned for the key verif-d / verif-g of namespace 'forbidden'", o.1.len()))
            } else {
                o
            }
        }
        ("get_config", _) if file.contains("openapi") => {
            // the v1 console route /rnacos/api/console/cs/configs points to this OpenAPI handler function; it takes no request, so no session can be consulted.
            // A configuration of the forbidden namespace is published first (as an administrator would), then read through the handler.
            use crate::config::core::ConfigKey;
            use crate::openapi::config::api::ConfigWebParams;
            use crate::raft::cluster::model::SetConfigReq;
            let key = ConfigKey::new("verif-d", "verif-g", "forbidden");
            app.config_route.set_config(SetConfigReq::new(key, Arc::new("secret-of-forbidden".to_owned()))).await.map_err(|e| format!("MODEL: publish: {}", e))?;
            let q = ConfigWebParams {
                data_id: Some("verif-d".to_owned()),
                group: Some("verif-g".to_owned()),
                tenant: Some("forbidden".to_owned()),
                content: None,
                desc: None,
                r#type: None,
                search: None,
                page_no: None,
                page_size: None,
            };
            let o = outcome(crate::openapi::config::api::get_config(web::Query(q), data).await, &req).await;
            if !o.1.contains("secret-of-forbidden") && !refused(&o) {
                return Err(format!("MODEL: the configuration published into the forbidden namespace is not served back: {} {}", o.0, &o.1[..o.1.len().min(120)]));
            }
            o
        }
        _ => return Err(format!("MODEL: no native call for handler {} ({})", handler, file)),
    })
}

async fn run(handler: String, file: String) -> Result<(), String> {
    let dir = tempfile::tempdir().unwrap();
    let mut sys_config = AppSysConfig::init_from_env();
    sys_config.local_db_dir = dir.path().to_string_lossy().to_string();
    sys_config.raft_node_id = 1;
    sys_config.raft_auto_init = true;
    sys_config.raft_join_addr = String::new();
    sys_config.metrics_enable = false;
    sys_config.ldap_enable = false;
    sys_config.oauth2_enable = false;
    sys_config.naming_instance_metadata_persistence_enable = false;
    let factory_data = config_factory(Arc::new(sys_config)).await.map_err(|e| format!("MODEL: config_factory: {}", e))?;
    let app = build_share_data(factory_data).map_err(|e| format!("MODEL: build_share_data: {}", e))?;
    for _ in 0..300 {
        if app.raft.current_leader().await == Some(1) {
            break;
        }
        tokio::time::sleep(Duration::from_millis(100)).await;
    }
    // control: a handler that does check must refuse the same request
    let c = call("query_history_config_page", "src/console/v2/config_api.rs", &app).await?;
    if !refused(&c) {
        return Err(format!("MODEL: the control handler (v2 config history) is not refused for a user restricted to another namespace: {} {}", c.0, &c.1[..c.1.len().min(200)]));
    }
    let o = call(&handler, &file, &app).await?;
    if !refused(&o) {
        return Err(format!(
            "console handler {} ({}) serves a user whose namespace whitelist is {{allowed}} a request that names namespace 'forbidden': status {}, body {}",
            handler, file, o.0, &o.1[..o.1.len().min(160)]
        ));
    }
    Ok(())
}

pub fn replay_file() {
    let path = std::env::var("VERIF_REPLAY").expect("VERIF_REPLAY not set");
    let txt = std::fs::read_to_string(&path).expect("replay file unreadable");
    let v: serde_json::Value = serde_json::from_str(&txt).expect("replay file not json");
    let mode = v["mode"].as_str().unwrap_or("validate").to_string();
    let mut cases = vec![];
    for h in v["histories"].as_array().cloned().unwrap_or_default() {
        cases.push((h["handler"].as_str().unwrap_or("").to_string(), h["file"].as_str().unwrap_or("").to_string()));
    }
    let n = cases.len();
    let results: Vec<(String, Result<(), String>)> = actix_rt::System::new().block_on(async move {
        let mut out = vec![];
        for (h, f) in cases {
            let r = run(h.clone(), f).await;
            out.push((h, r));
        }
        out
    });
    for (h, r) in results.iter() {
        match r {
            Ok(()) => {}
            Err(m) if m.starts_with("MODEL:") => panic!("VERIF-VALIDATE-MISMATCH handler {}: {}", h, m),
            Err(m) => {
                println!("VERIF-TAG handler-{}", h);
                if mode == "violation" {
                    panic!("VERIF-REPLAY-CHECK-FAILED: {}", m);
                }
                panic!("VERIF-VALIDATE-MISMATCH handler {}: the real handler breaks an expectation the encoding discharged: {}", h, m);
            }
        }
    }
    println!("VERIF-REPLAY-PASSED covers=[] histories={}", n);
}
