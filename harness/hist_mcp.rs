//! Native twin of engine-S obligation s07_mcp_component_paths (rs2smt/c07mcp.py): two real `McpManager` actors receive the same
//! committed `McpManagerRaftReq`s; the second one additionally gets `RaftApplyDataRequest::LoadCompleted` behind request
//! `restart_behind_request` (what start-up replay ends with). Every request must be answered alike (Ok / Err) and at the end
//! GetServerByKey / GetServer / GetToolSpec must answer alike.
//!   mode "violation": a difference confirms the counterexample; mode "validate": there must be none and the answers of
//!   the node that applies the log one by one must be the encoding's.
#![allow(dead_code, unused_imports, clippy::all)]
use crate::mcp::core::McpManager;
use crate::mcp::model::actor_model::{McpManagerRaftReq, McpManagerReq, McpManagerResult};
use crate::mcp::model::mcp::McpServerParam;
use crate::mcp::model::tools::{McpSimpleTool, ToolFunctionValue, ToolKey, ToolSpecParam};
use crate::raft::filestore::raftapply::RaftApplyDataRequest;
use actix::prelude::*;
use std::sync::Arc;

enum Fail {
    Property(String),
    Model(String),
}

fn tkey() -> ToolKey {
    ToolKey::new(Arc::new("ns".to_string()), Arc::new("g".to_string()), Arc::new("t".to_string()))
}

fn request(op: &serde_json::Value, i: usize) -> Result<McpManagerRaftReq, String> {
    let sid = op["server"].as_u64().unwrap_or(1);
    Ok(match op["op"].as_str().unwrap_or("") {
        name @ ("add" | "update") => {
            let tools: Vec<McpSimpleTool> = op["tools"]
                .as_array()
                .cloned()
                .unwrap_or_default()
                .iter()
                .map(|t| McpSimpleTool {
                    tool_name: Arc::new("t".to_string()),
                    tool_key: tkey(),
                    tool_version: t.as_str().unwrap_or("").rsplit('v').next().and_then(|x| x.parse().ok()).unwrap_or(1),
                    route_rule: Default::default(),
                })
                .collect();
            let p = McpServerParam {
                id: sid,
                unique_key: op["key"].as_str().map(|k| Arc::new(k.to_string())),
                value_id: 10 * sid + i as u64,
                tools,
                op_user: Arc::new("u".to_string()),
                update_time: 1000 + i as i64,
                namespace: Some(Arc::new("ns".to_string())),
                name: Some(Arc::new(format!("srv{}", sid))),
                description: Some(Arc::new("d".to_string())),
                token: None,
                auth_keys: Some(vec![Arc::new("ak".to_string())]),
                publish_value_id: None,
            };
            if name == "add" {
                McpManagerRaftReq::AddServer(p)
            } else {
                McpManagerRaftReq::UpdateServer(p)
            }
        }
        "publish" => McpManagerRaftReq::PublishCurrentServer(sid, 100 + i as u64),
        "remove" => McpManagerRaftReq::RemoveServer(sid),
        "spec" => {
            let v = op["version"].as_u64().unwrap_or(1);
            McpManagerRaftReq::UpdateToolSpec(ToolSpecParam {
                namespace: Arc::new("ns".to_string()),
                group: Arc::new("g".to_string()),
                tool_name: Arc::new("t".to_string()),
                parameters: ToolFunctionValue { name: Arc::new("t".to_string()), description: Arc::new(format!("v{}", v)), input_schema: Default::default() },
                version: v,
                update_time: 1000 + i as i64,
                op_user: Some(Arc::new("u".to_string())),
            })
        }
        "unspec" => McpManagerRaftReq::RemoveToolSpec(tkey()),
        other => return Err(format!("unknown op {}", other)),
    })
}

async fn observe(a: &Addr<McpManager>) -> Result<Vec<(String, String)>, String> {
    let mut out = vec![];
    for k in ["key-a", "key-b", "key-c"] {
        match a.send(McpManagerReq::GetServerByKey(Arc::new(k.to_string()))).await {
            Ok(Ok(McpManagerResult::ServerInfo(s))) => out.push((format!("by-key {}", k), format!("{:?}", s.map(|s| s.id)))),
            _ => return Err("GetServerByKey is not answered".to_string()),
        }
    }
    for id in [1u64, 2] {
        match a.send(McpManagerReq::GetServer(id)).await {
            Ok(Ok(McpManagerResult::ServerInfo(s))) => out.push((
                format!("server {}", id),
                format!(
                    "{:?}",
                    s.map(|s| (
                        s.unique_key.to_string(),
                        s.current_value.tools.iter().map(|t| (t.tool_version, t.spec.description.to_string())).collect::<Vec<_>>(),
                        s.release_value.id
                    ))
                ),
            )),
            _ => return Err("GetServer is not answered".to_string()),
        }
    }
    match a.send(McpManagerReq::GetToolSpec(tkey())).await {
        Ok(Ok(McpManagerResult::ToolSpecInfo(t))) => out.push(("tool spec".to_string(), format!("{:?}", t.map(|t| (t.current_version, t.versions.keys().cloned().collect::<Vec<_>>()))))),
        _ => return Err("GetToolSpec is not answered".to_string()),
    }
    Ok(out)
}

/// the node restarts from the snapshot its MCP component wrote: real SnapshotWriterActor -> file -> real SnapshotReader -> fresh manager
async fn through_snapshot(rep: &Addr<McpManager>) -> Result<Addr<McpManager>, String> {
    use crate::raft::filestore::model::SnapshotHeaderDto;
    use crate::raft::filestore::raftsnapshot::{SnapshotReader, SnapshotWriterActor, SnapshotWriterRequest};
    let dir = tempfile::tempdir().unwrap();
    let path = Arc::new(dir.path().join("mcp_snapshot").to_string_lossy().into_owned());
    let header = SnapshotHeaderDto { last_index: 1, last_term: 1, member: vec![1], member_after_consensus: vec![], node_addrs: Default::default() };
    let writer = SnapshotWriterActor::new(path.clone(), header).start();
    rep.send(RaftApplyDataRequest::BuildSnapshot(writer.clone())).await.map_err(|e| format!("mailbox: {}", e))?.map_err(|e| format!("the MCP component cannot build its snapshot: {}", e))?;
    for _ in 0..2 {
        writer.send(SnapshotWriterRequest::Flush).await.map_err(|e| format!("mailbox: {}", e))?.map_err(|e| format!("flush: {}", e))?;
    }
    let fresh = McpManager::new().start();
    let mut reader = SnapshotReader::init(&path).await.map_err(|e| format!("reader: {}", e))?;
    while let Some(rec) = reader.read_record().await.map_err(|e| format!("read_record: {}", e))? {
        fresh.send(RaftApplyDataRequest::LoadSnapshotRecord(rec)).await.map_err(|e| format!("mailbox: {}", e))?.map_err(|e| format!("the MCP component cannot load a record of its own snapshot: {}", e))?;
    }
    Ok(fresh)
}

async fn one(hist: &serde_json::Value, validate: bool) -> Result<(), Fail> {
    let live = McpManager::new().start();
    let mut rep = McpManager::new().start();
    let ra = hist["restart_behind_request"].as_u64().unwrap_or(0) as usize;
    let snap = hist["restart_from_snapshot"].as_bool().unwrap_or(false);
    for (i, op) in hist["ops"].as_array().cloned().unwrap_or_default().iter().enumerate() {
        let name = op["op"].as_str().unwrap_or("").to_string();
        let a = live.send(request(op, i).map_err(Fail::Model)?).await.map_err(|e| Fail::Model(format!("mailbox: {}", e)))?;
        let b = rep.send(request(op, i).map_err(Fail::Model)?).await.map_err(|e| Fail::Model(format!("mailbox: {}", e)))?;
        let (ka, kb) = (if a.is_ok() { "Ok" } else { "Err" }, if b.is_ok() { "Ok" } else { "Err" });
        if validate {
            if let Some(want) = op["answer"].as_str() {
                if want != ka {
                    return Err(Fail::Model(format!("request {} ({}): the real manager answers {}, the encoding computed {}", i + 1, name, ka, want)));
                }
            }
        }
        if ka != kb {
            return Err(Fail::Property(format!(
                "request {} ({}) is answered {} on the node that applied the log one by one and {} on the node that restarted behind request {}",
                i + 1, name, ka, kb, ra
            )));
        }
        if i + 1 == ra {
            if snap {
                rep = through_snapshot(&rep).await.map_err(Fail::Model)?;
            }
            let _ = rep.send(RaftApplyDataRequest::LoadCompleted).await;
        }
    }
    let oa = observe(&live).await.map_err(Fail::Model)?;
    let ob = observe(&rep).await.map_err(Fail::Model)?;
    for ((q, x), (_, y)) in oa.iter().zip(ob.iter()) {
        if x != y {
            return Err(Fail::Property(format!(
                "{}: the node that applied the log one by one answers {}, the node that restarted behind request {} ({}) answers {}",
                q, x, ra, if snap { "from the component's snapshot" } else { "start-up replay, load-complete" }, y
            )));
        }
    }
    Ok(())
}

pub fn replay_file() {
    let path = std::env::var("VERIF_REPLAY").expect("VERIF_REPLAY not set");
    let txt = std::fs::read_to_string(&path).expect("replay file unreadable");
    let v: serde_json::Value = serde_json::from_str(&txt).expect("replay file not json");
    let mode = v["mode"].as_str().unwrap_or("validate").to_string();
    let hists = v["histories"].as_array().cloned().unwrap_or_default();
    let n = hists.len();
    let validate = mode != "violation";
    let results: Vec<Result<(), Fail>> = actix_rt::System::new().block_on(async move {
        let mut out = vec![];
        for h in hists {
            out.push(one(&h, validate).await);
        }
        out
    });
    for (i, r) in results.into_iter().enumerate() {
        match r {
            Ok(()) => {}
            Err(Fail::Property(msg)) => {
                if mode == "violation" {
                    panic!("VERIF-REPLAY-CHECK-FAILED: {}", msg);
                }
                panic!("VERIF-VALIDATE-MISMATCH history {}: the real code breaks an expectation the encoding discharged: {}", i + 1, msg);
            }
            Err(Fail::Model(msg)) => panic!("VERIF-VALIDATE-MISMATCH history {}: {}", i + 1, msg),
        }
    }
    println!("VERIF-REPLAY-PASSED covers=[] histories={}", n);
}
