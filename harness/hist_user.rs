//! Native replay of engine-S counterexamples of rs2smt/c18store.py (C18: how a namespace restriction reaches the session).
//! A real single-node application (starter::config_factory + build_share_data on a temp directory, raft leader = itself);
//! the steps of the counterexample go through the UserManager actor (AddUser / UpdateUser), the stored user is queried back
//! and the privilege group a new session would get (console::login_api + user_namespace_privilege!) is compared with the
//! reference group of the last request on the namespaces "", a, b, zz.
#![allow(dead_code, unused_imports, clippy::all)]
use std::collections::HashSet;
use std::sync::Arc;
use std::time::Duration;

use crate::common::model::privilege::{NamespacePrivilegeGroup, PrivilegeGroupOptionParam};
use crate::common::AppSysConfig;
use crate::starter::{build_share_data, config_factory};
use crate::user::model::UserDto;
use crate::user::{UserManagerReq, UserManagerResult};

fn ns_set(v: &serde_json::Value) -> Option<Arc<HashSet<Arc<String>>>> {
    v.as_array().map(|a| Arc::new(a.iter().map(|e| Arc::new(e.as_str().unwrap_or("").to_owned())).collect::<HashSet<_>>()))
}

fn param(v: &serde_json::Value) -> PrivilegeGroupOptionParam<Arc<String>> {
    PrivilegeGroupOptionParam {
        whitelist_is_all: v["whitelistIsAll"].as_bool(),
        whitelist: ns_set(&v["whitelist"]),
        blacklist_is_all: v["blacklistIsAll"].as_bool(),
        blacklist: ns_set(&v["blacklist"]),
    }
}

struct Ref {
    wa: bool,
    ba: bool,
    wl: Vec<String>,
    bl: Vec<String>,
}

fn strs(v: &serde_json::Value) -> Option<Vec<String>> {
    v.as_array().map(|a| a.iter().map(|e| e.as_str().unwrap_or("").to_owned()).collect())
}

async fn run(steps: Vec<(String, serde_json::Value)>) -> Result<(), String> {
    let dir = tempfile::tempdir().unwrap();
    let mut sys_config = AppSysConfig::init_from_env();
    sys_config.local_db_dir = dir.path().to_string_lossy().to_string();
    sys_config.raft_node_id = 1;
    sys_config.raft_auto_init = true;
    sys_config.raft_join_addr = String::new();
    sys_config.metrics_enable = false;
    sys_config.ldap_enable = false;
    sys_config.oauth2_enable = false;
    sys_config.naming_instance_metadata_persistence_enable = false;
    let factory_data = config_factory(Arc::new(sys_config)).await.map_err(|e| format!("MODEL: config_factory: {}", e))?;
    let app = build_share_data(factory_data).map_err(|e| format!("MODEL: build_share_data: {}", e))?;
    let mut is_leader = false;
    for _ in 0..300 {
        if app.raft.current_leader().await == Some(1) {
            is_leader = true;
            break;
        }
        tokio::time::sleep(Duration::from_millis(100)).await;
    }
    if !is_leader {
        return Err("MODEL: the single raft node did not become leader".to_string());
    }
    let username = Arc::new("verif_scoped_user".to_owned());
    let mut reference = Ref { wa: true, ba: false, wl: vec![], bl: vec![] };
    for (k, (kind, p)) in steps.iter().enumerate() {
        let user = UserDto { username: username.clone(), nickname: if kind == "add" { Some("n".to_owned()) } else { None }, ..Default::default() };
        let req = if kind == "add" {
            reference.wl = strs(&p["whitelist"]).unwrap_or_default();
            reference.bl = strs(&p["blacklist"]).unwrap_or_default();
            UserManagerReq::AddUser { user, namespace_privilege_param: Some(param(p)) }
        } else {
            if let Some(v) = strs(&p["whitelist"]) {
                reference.wl = v;
            }
            if let Some(v) = strs(&p["blacklist"]) {
                reference.bl = v;
            }
            UserManagerReq::UpdateUser { user, namespace_privilege_param: Some(param(p)) }
        };
        if let Some(v) = p["whitelistIsAll"].as_bool() {
            reference.wa = v;
        }
        if let Some(v) = p["blacklistIsAll"].as_bool() {
            reference.ba = v;
        }
        app.user_manager.send(req).await.map_err(|e| format!("MODEL: step {}: {}", k, e))?.map_err(|e| format!("MODEL: step {} refused: {}", k, e))?;
    }
    let user = match app.user_manager.send(UserManagerReq::Query { name: username.clone() }).await {
        Ok(Ok(UserManagerResult::QueryUser(Some(v)))) => v,
        _ => return Err("MODEL: the user is not stored".to_string()),
    };
    let stored = user.namespace_privilege.clone();
    let group = user.namespace_privilege.clone().map(NamespacePrivilegeGroup::new).unwrap_or_default();
    for ns in ["", "a", "b", "zz"] {
        let c2 = if ns.is_empty() || ns == "public" { "" } else { ns };
        let want = (reference.wa || reference.wl.iter().any(|e| e == c2)) && !(reference.ba || reference.bl.iter().any(|e| e == c2));
        let got = group.check_permission(&Arc::new(ns.to_owned()));
        if got != want {
            return Err(format!(
                "after {:?} a new session {} namespace {:?} although the last request {} it (stored group: {:?})",
                steps.iter().map(|(k, p)| format!("{} {}", k, p)).collect::<Vec<_>>(),
                if got { "may use" } else { "is refused" },
                ns,
                if got { "refuses" } else { "grants" },
                stored
            ));
        }
    }
    Ok(())
}

pub fn replay_file() {
    let path = std::env::var("VERIF_REPLAY").expect("VERIF_REPLAY not set");
    let txt = std::fs::read_to_string(&path).expect("replay file unreadable");
    let v: serde_json::Value = serde_json::from_str(&txt).expect("replay file not json");
    let mode = v["mode"].as_str().unwrap_or("validate").to_string();
    let mut hists: Vec<Vec<(String, serde_json::Value)>> = vec![];
    for h in v["histories"].as_array().cloned().unwrap_or_default() {
        let mut steps = vec![];
        for s in h["steps"].as_array().cloned().unwrap_or_default() {
            steps.push((s[0].as_str().unwrap_or("").to_string(), s[1].clone()));
        }
        hists.push(steps);
    }
    let n = hists.len();
    let results: Vec<Result<(), String>> = actix_rt::System::new().block_on(async move {
        let mut out = vec![];
        for h in hists {
            out.push(run(h).await);
        }
        out
    });
    for (i, r) in results.iter().enumerate() {
        match r {
            Ok(()) => {}
            Err(m) if m.starts_with("MODEL:") => panic!("VERIF-VALIDATE-MISMATCH history {}: {}", i, m),
            Err(m) => {
                if mode == "violation" {
                    panic!("VERIF-REPLAY-CHECK-FAILED: {}", m);
                }
                panic!("VERIF-VALIDATE-MISMATCH history {}: the real code breaks an expectation the encoding discharged: {}", i, m);
            }
        }
    }
    println!("VERIF-REPLAY-PASSED covers=[] histories={}", n);
}
