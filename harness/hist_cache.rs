//! Native twin of engine-S histories of the replicated cache table (C16 s16_7_session_deadline, rs2smt/c16cache.py).
//! A real `DirectCacheManager` actor receives the history's `CacheManagerRaftReq`s. The native clock cannot be set, so only
//! histories whose steps all happen at one clock value are replayed: every time of the history is given relative to "now"
//! (`login_ago` = clock - login time, `deadline_in` = deadline - clock) and the encoder keeps every deadline at least 5 s away
//! from the clock, so that the seconds that pass while the history runs decide nothing.
//!   oracle (soundness, as in the encoding): a value / Exists(true) is only answered for a key whose last write in effect
//!   has a deadline (login time + lifetime, or the absolute deadline of Expire) that is not over; the value is that write's.
//!   mode "violation": an oracle failure confirms the counterexample; mode "validate": the oracle must hold and the
//!   answers must be the encoding's (translator validation).
#![allow(dead_code, unused_imports, clippy::all)]
use crate::cache::actor_model::{CacheManagerRaftReq, CacheManagerRaftResult, CacheSetParam};
use crate::cache::core::DirectCacheManager;
use crate::cache::model::{CacheKey, CacheType, CacheValue};
use crate::now_second_i32;
use actix::prelude::*;
use std::collections::HashMap;
use std::sync::Arc;

enum Fail {
    Property(String),
    Model(String),
}

fn answer_name(r: &CacheManagerRaftResult) -> String {
    match r {
        CacheManagerRaftResult::Ok => "Ok".to_string(),
        CacheManagerRaftResult::Nil => "Nil".to_string(),
        CacheManagerRaftResult::None => "None".to_string(),
        CacheManagerRaftResult::Value(_) => "Value".to_string(),
        CacheManagerRaftResult::Exists(b) => format!("Exists({})", b),
        CacheManagerRaftResult::Ttl(_) => "Ttl".to_string(),
        CacheManagerRaftResult::Limiter(_) => "Limiter".to_string(),
    }
}

async fn one(hist: &serde_json::Value, validate: bool) -> Result<(), Fail> {
    let a = DirectCacheManager::new().start();
    // key -> (label, deadline (None = never))
    let mut reference: HashMap<String, (String, Option<i64>)> = HashMap::new();
    for (k, op) in hist["ops"].as_array().cloned().unwrap_or_default().iter().enumerate() {
        let name = op["op"].as_str().unwrap_or("");
        if name == "tick" {
            continue;
        }
        let kname = op["key"].as_str().unwrap_or("").to_string();
        let key = CacheKey::new(CacheType::ApiTokenSession, Arc::new(kname.clone()));
        let now = now_second_i32();
        let req = match name {
            "set" | "getset" => {
                let label = op["value"].as_str().unwrap_or("").to_string();
                let never = op["never_expires"].as_bool().unwrap_or(false);
                let mut p = CacheSetParam::new(key, CacheValue::String(Arc::new(label)));
                if !never {
                    p.ttl = op["ttl"].as_i64().unwrap_or(0) as i32;
                    p.now = now - op["login_ago"].as_i64().unwrap_or(0) as i32;
                }
                p.nx = op["nx"].as_bool().unwrap_or(false);
                p.xx = op["xx"].as_bool().unwrap_or(false);
                if name == "set" {
                    CacheManagerRaftReq::Set(p)
                } else {
                    CacheManagerRaftReq::GetSet(p)
                }
            }
            "get" => CacheManagerRaftReq::Get(key),
            "exists" => CacheManagerRaftReq::Exists(key),
            "remove" => CacheManagerRaftReq::Remove(key),
            "expire" => CacheManagerRaftReq::Expire(key, now + op["deadline_in"].as_i64().unwrap_or(0) as i32),
            _ => return Err(Fail::Model(format!("op {}: unknown op {}", k, name))),
        };
        let ans = match a.send(req).await {
            Ok(Ok(r)) => r,
            Ok(Err(e)) => return Err(Fail::Property(format!("op {}: the cache table answers with an error: {}", k, e))),
            Err(e) => return Err(Fail::Model(format!("op {}: mailbox: {}", k, e))),
        };
        if validate {
            if let Some(want) = op["answer"].as_str() {
                if want != answer_name(&ans) {
                    return Err(Fail::Model(format!("op {} ({}): the real table answers {}, the encoding computed {}", k, name, answer_name(&ans), want)));
                }
            }
        }
        // soundness of what is served
        let served: Option<Option<String>> = match &ans {
            CacheManagerRaftResult::Value(v) => Some(v.try_to_string().map(|s| s.to_string())),
            CacheManagerRaftResult::Exists(true) if name == "exists" => Some(None),
            _ => None,
        };
        if let Some(label) = served {
            match reference.get(&kname) {
                None => return Err(Fail::Property(format!("op {} ({}): key {} is served although no write of it is in effect", k, name, kname))),
                Some((l, d)) => {
                    if let Some(label) = label {
                        if &label != l {
                            return Err(Fail::Property(format!("op {} ({}): key {} is served with {}, the last write in effect stored {}", k, name, kname, label, l)));
                        }
                    }
                    if let Some(d) = d {
                        if *d + 2 < now as i64 {
                            return Err(Fail::Property(format!(
                                "op {} ({}): key {} is served {} s after its deadline (login time + lifetime): an expired token is accepted",
                                k, name, kname, now as i64 - *d
                            )));
                        }
                    }
                }
            }
        }
        // the reference follows the writes that took effect
        match name {
            "set" | "getset" => {
                let took = name == "getset" || matches!(ans, CacheManagerRaftResult::Ok);
                if took {
                    let never = op["never_expires"].as_bool().unwrap_or(false);
                    let d = if never { None } else { Some(now as i64 - op["login_ago"].as_i64().unwrap_or(0) + op["ttl"].as_i64().unwrap_or(0)) };
                    reference.insert(kname.clone(), (op["value"].as_str().unwrap_or("").to_string(), d));
                }
            }
            "remove" => {
                reference.remove(&kname);
            }
            "expire" => {
                if matches!(ans, CacheManagerRaftResult::Ok) {
                    match reference.get(&kname).cloned() {
                        Some((l, d)) => {
                            if let Some(d) = d {
                                if d + 2 < now as i64 {
                                    return Err(Fail::Property(format!("op {}: Expire prolongs an entry of key {} whose lifetime is over", k, kname)));
                                }
                            }
                            reference.insert(kname.clone(), (l, Some(now as i64 + op["deadline_in"].as_i64().unwrap_or(0))));
                        }
                        None => return Err(Fail::Property(format!("op {}: Expire prolongs key {} which is not stored", k, kname))),
                    }
                }
            }
            _ => {}
        }
    }
    Ok(())
}

pub fn replay_file() {
    let path = std::env::var("VERIF_REPLAY").expect("VERIF_REPLAY not set");
    let txt = std::fs::read_to_string(&path).expect("replay file unreadable");
    let v: serde_json::Value = serde_json::from_str(&txt).expect("replay file not json");
    let mode = v["mode"].as_str().unwrap_or("validate").to_string();
    let hists = v["histories"].as_array().cloned().unwrap_or_default();
    let n = hists.len();
    let validate = mode != "violation";
    let results: Vec<Result<(), Fail>> = actix_rt::System::new().block_on(async move {
        let mut out = vec![];
        for h in hists {
            out.push(one(&h, validate).await);
        }
        out
    });
    for (i, r) in results.into_iter().enumerate() {
        match r {
            Ok(()) => {}
            Err(Fail::Property(msg)) => {
                if mode == "violation" {
                    panic!("VERIF-REPLAY-CHECK-FAILED: {}", msg);
                }
                panic!("VERIF-VALIDATE-MISMATCH history {}: the real code breaks an expectation the encoding discharged: {}", i + 1, msg);
            }
            Err(Fail::Model(msg)) => panic!("VERIF-VALIDATE-MISMATCH history {}: {}", i + 1, msg),
        }
    }
    println!("VERIF-REPLAY-PASSED covers=[] histories={}", n);
}
