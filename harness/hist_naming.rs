//! Native replay of engine-S operation histories of the NamingActor's registration paths (C11 / C12, rs2smt/c11actor.py).
//! The history is executed on a real `NamingActor` value (its public / crate-visible methods, no mailbox needed); after every
//! step the oracle is evaluated on the real state: the per-connection reverse map `client_instance_set` matches the stored
//! instances; a connection close removes exactly the instances that connection owns.
//!   mode "violation": an oracle failure confirms the counterexample; mode "validate": oracle + state equality with the encoding.
#![allow(dead_code, unused_imports, clippy::all)]
use crate::naming::core::NamingActor;
use crate::naming::model::{Instance, InstanceKey, InstanceShortKey, InstanceUpdateTag, ServiceKey};
use std::collections::{BTreeMap, BTreeSet};
use std::sync::Arc;

enum Fail {
    Property(String),
    Model(String),
}

fn b(v: &serde_json::Value, k: &str) -> bool {
    v[k].as_bool().unwrap_or(false)
}

pub fn replay_file() {
    let path = std::env::var("VERIF_REPLAY").expect("VERIF_REPLAY not set");
    let txt = std::fs::read_to_string(&path).expect("replay file unreadable");
    let v: serde_json::Value = serde_json::from_str(&txt).expect("replay file not json");
    let mode = v["mode"].as_str().unwrap_or("validate").to_string();
    let mut n = 0usize;
    for hist in v["histories"].as_array().cloned().unwrap_or_default() {
        n += 1;
        match one(&hist, &mode) {
            Ok(()) => {}
            Err(Fail::Property(msg)) => {
                if mode == "violation" {
                    panic!("VERIF-REPLAY-CHECK-FAILED: {}", msg);
                }
                panic!("VERIF-VALIDATE-MISMATCH history {}: the real code breaks an expectation the encoding discharged: {}", n, msg);
            }
            Err(Fail::Model(msg)) => panic!("VERIF-VALIDATE-MISMATCH history {}: {}", n, msg),
        }
    }
    println!("VERIF-REPLAY-PASSED covers=[] histories={}", n);
}

/// port -> (client id, ephemeral, from_grpc)
fn instances(actor: &NamingActor, key: &ServiceKey) -> BTreeMap<u32, (String, bool, bool)> {
    let mut m = BTreeMap::new();
    if let Some(svc) = actor.service_map.get(key) {
        for (k, v) in svc.instances.iter() {
            m.insert(k.port, (v.client_id.as_str().to_string(), v.ephemeral, v.from_grpc));
        }
    }
    m
}

fn reverse(actor: &NamingActor) -> BTreeMap<String, BTreeSet<u32>> {
    let mut m = BTreeMap::new();
    for (c, ks) in actor.client_instance_set.iter() {
        if !ks.is_empty() {
            m.insert(c.as_str().to_string(), ks.iter().map(|k| k.port).collect());
        }
    }
    m
}

fn one(hist: &serde_json::Value, mode: &str) -> Result<(), Fail> {
    let mut actor = NamingActor::new();
    let key = ServiceKey::new("public", "g", "svc");
    let ip = Arc::new("1.1.1.1".to_string());
    for (k, op) in hist["ops"].as_array().cloned().unwrap_or_default().iter().enumerate() {
        let name = op["op"].as_str().unwrap_or("");
        let port = op["port"].as_u64().unwrap_or(1) as u32;
        match name {
            "grpc_register" | "http_register" => {
                let mut ins = Instance::new("1.1.1.1".to_string(), port);
                ins.weight = 1.0;
                ins.enabled = true;
                ins.healthy = true;
                ins.ephemeral = b(op, "ephemeral");
                ins.cluster_name = "DEFAULT".to_string();
                ins.service_name = key.service_name.clone();
                ins.group_name = key.group_name.clone();
                ins.namespace_id = key.namespace_id.clone();
                ins.from_grpc = name == "grpc_register";
                ins.client_id = Arc::new(op["client_id"].as_str().unwrap_or("").to_string());
                let tag = if b(op, "empty_tag") {
                    Some(InstanceUpdateTag { weight: false, metadata: false, enabled: false, ephemeral: false, from_update: false })
                } else {
                    None
                };
                actor.update_instance(&key, ins, tag, false, None);
                if !instances(&actor, &key).contains_key(&port) {
                    return Err(Fail::Property(format!("op {}: a registered instance is not stored", k)));
                }
            }
            "remove" => {
                let cid = op["client_id"].as_str().map(|s| Arc::new(s.to_string()));
                actor.remove_instance(&key, &InstanceShortKey::new(ip.clone(), port), cid.as_ref());
            }
            "disconnect" => {
                let c = op["client_id"].as_str().unwrap_or("").to_string();
                let before = instances(&actor, &key);
                actor.remove_client_instance(&Arc::new(c.clone()));
                let after = instances(&actor, &key);
                for (p, (owner, _, _)) in before.iter() {
                    if *owner == c {
                        if after.contains_key(p) {
                            return Err(Fail::Property(format!("op {}: connection {} closed but its instance at address {} stays registered", k, c, p)));
                        }
                    } else if !after.contains_key(p) {
                        return Err(Fail::Property(format!(
                            "op {}: connection {} closed and the instance at address {} owned by '{}' was removed",
                            k, c, p, owner
                        )));
                    }
                }
            }
            _ => return Err(Fail::Model(format!("op {}: unknown op {}", k, name))),
        }
        // reverse map oracle
        let inst = instances(&actor, &key);
        let rev = reverse(&actor);
        for (c, ports) in rev.iter() {
            for p in ports {
                match inst.get(p) {
                    None => return Err(Fail::Property(format!("op {}: the reverse map of connection {} lists address {} which is not registered", k, c, p))),
                    Some((owner, _, _)) if owner != c => {
                        return Err(Fail::Property(format!("op {}: the reverse map of connection {} lists address {} which is owned by '{}'", k, c, p, owner)))
                    }
                    _ => {}
                }
            }
        }
        for (p, (owner, _, _)) in inst.iter() {
            if !owner.is_empty() && !rev.get(owner).map(|s| s.contains(p)).unwrap_or(false) {
                return Err(Fail::Property(format!(
                    "op {}: address {} is owned by connection {} but missing from its reverse map (a connection close would leave it registered)",
                    k, p, owner
                )));
            }
        }
        if let Some(svc) = actor.service_map.get(&key) {
            if svc.instance_size != svc.instances.len() as i64 {
                return Err(Fail::Property(format!("op {}: instance count reported for the service differs from the number of instances it holds", k)));
            }
        }
        if mode == "validate" && op["model_state"].is_object() {
            let ms = &op["model_state"];
            let mut model_inst: BTreeMap<u32, (String, bool, bool)> = BTreeMap::new();
            if let Some(m) = ms["instances"].as_object() {
                for (p, f) in m {
                    model_inst.insert(p.parse().unwrap_or(0), (f["client_id"].as_str().unwrap_or("").to_string(), b(f, "ephemeral"), b(f, "from_grpc")));
                }
            }
            if model_inst != inst {
                return Err(Fail::Model(format!("op {}: instances (owner, ephemeral, from_grpc) are {:?} in the real code, {:?} in the encoding", k, inst, model_inst)));
            }
            let mut model_rev: BTreeMap<String, BTreeSet<u32>> = BTreeMap::new();
            if let Some(m) = ms["client_instance_set"].as_object() {
                for (c, ps) in m {
                    model_rev.insert(c.clone(), ps.as_array().cloned().unwrap_or_default().iter().map(|x| x.as_u64().unwrap_or(0) as u32).collect());
                }
            }
            if model_rev != rev {
                return Err(Fail::Model(format!("op {}: reverse map is {:?} in the real code, {:?} in the encoding", k, rev, model_rev)));
            }
        }
    }
    Ok(())
}
