//! Native replay of engine-S operation histories of one naming `Service` (C11 / C12 / C13, rs2smt/c11.py).
//! The history (ops with the concrete flag values of the solver's model) is executed on the real
//! `naming::service::Service`; after every step the property oracle (bookkeeping counters, persistent set, instance query,
//! ownership of deregistrations, expiry rules) is evaluated on the real state.
//!   mode "violation": an oracle failure on the real code confirms the counterexample (VERIF-REPLAY-CHECK-FAILED).
//!   mode "validate":  translator validation - the oracle must hold and the real state after every step must be the state the
//!                     encoding computed (per address: healthy / ephemeral / enabled; the two counters).
#![allow(dead_code, unused_imports, clippy::all)]
use crate::naming::model::{Instance, InstanceShortKey, InstanceUpdateTag};
use crate::naming::service::Service;
use std::collections::{BTreeMap, BTreeSet, HashMap};
use std::sync::Arc;

enum Fail {
    Property(String),
    Model(String),
}

fn skey(port: u32) -> InstanceShortKey {
    InstanceShortKey::new(Arc::new("1.1.1.1".to_string()), port)
}

fn b(v: &serde_json::Value, k: &str) -> bool {
    v[k].as_bool().unwrap_or(false)
}

pub fn replay_file() {
    let path = std::env::var("VERIF_REPLAY").expect("VERIF_REPLAY not set");
    let txt = std::fs::read_to_string(&path).expect("replay file unreadable");
    let v: serde_json::Value = serde_json::from_str(&txt).expect("replay file not json");
    let mode = v["mode"].as_str().unwrap_or("validate").to_string();
    let h = v["h_timeout"].as_i64().unwrap_or(15);
    let o = v["o_timeout"].as_i64().unwrap_or(30);
    let mut n = 0usize;
    for hist in v["histories"].as_array().cloned().unwrap_or_default() {
        n += 1;
        match one(&hist, &mode, h, o) {
            Ok(()) => {}
            Err(Fail::Property(msg)) => {
                if mode == "violation" {
                    panic!("VERIF-REPLAY-CHECK-FAILED: {}", msg);
                }
                panic!("VERIF-VALIDATE-MISMATCH history {}: the real code breaks an expectation the encoding discharged: {}", n, msg);
            }
            Err(Fail::Model(msg)) => panic!("VERIF-VALIDATE-MISMATCH history {}: {}", n, msg),
        }
    }
    println!("VERIF-REPLAY-PASSED covers=[] histories={}", n);
}

fn invariants(svc: &Service, k: usize) -> Result<(), Fail> {
    if svc.instance_size != svc.instances.len() as i64 {
        return Err(Fail::Property(format!(
            "op {}: instance count reported for the service ({}) differs from the number of instances it holds ({})",
            k,
            svc.instance_size,
            svc.instances.len()
        )));
    }
    let nh = svc.instances.values().filter(|i| i.healthy).count() as i64;
    if svc.healthy_instance_size != nh {
        return Err(Fail::Property(format!(
            "op {}: healthy-instance count reported for the service ({}) differs from the number of healthy instances ({})",
            k, svc.healthy_instance_size, nh
        )));
    }
    let pers: BTreeSet<u32> = svc.perpetual_host_set.iter().map(|x| x.port).collect();
    let want: BTreeSet<u32> = svc.instances.iter().filter(|(_, i)| !i.ephemeral).map(|(k, _)| k.port).collect();
    if pers != want {
        return Err(Fail::Property(format!(
            "op {}: set of persistent instances {:?} differs from the non-ephemeral instances {:?}",
            k, pers, want
        )));
    }
    Ok(())
}

/// histories of the bookkeeping scenario (no timer ticks): the update-field oracle applies
fn mode_is_book(hist: &serde_json::Value) -> bool {
    !hist["ops"].as_array().map(|a| a.iter().any(|o| matches!(o["op"].as_str(), Some("tick") | Some("takeover")))).unwrap_or(false)
}

fn one(hist: &serde_json::Value, mode: &str, h_timeout: i64, o_timeout: i64) -> Result<(), Fail> {
    let mut svc = Service::default();
    svc.service_name = Arc::new("svc".to_string());
    svc.group_name = Arc::new("g".to_string());
    svc.group_service = Arc::new("g@@svc".to_string());
    let mut shadow: BTreeSet<u32> = BTreeSet::new();
    let mut overdue: BTreeSet<u32> = BTreeSet::new();
    let mut taken_over: BTreeSet<u32> = BTreeSet::new();
    // what the registrations say about an address: (registered through a gRPC connection, owned by this node); an HTTP-side write to the
    // address of a gRPC-connected ephemeral instance leaves it gRPC-connected
    let mut owner_ref: std::collections::BTreeMap<u32, (bool, bool)> = Default::default();
    for (k, op) in hist["ops"].as_array().cloned().unwrap_or_default().iter().enumerate() {
        let name = op["op"].as_str().unwrap_or("");
        let port = op["port"].as_u64().unwrap_or(1) as u32;
        let key = skey(port);
        match name {
            "register" => {
                let t = op["t"].as_i64().unwrap_or(0);
                let mut ins = Instance::new("1.1.1.1".to_string(), port);
                ins.id = Arc::new(format!("1.1.1.1#{}", port));
                ins.weight = op["weight"].as_f64().unwrap_or(1.0) as f32;
                ins.enabled = b(op, "enabled");
                ins.healthy = b(op, "healthy");
                ins.ephemeral = b(op, "ephemeral");
                ins.cluster_name = "DEFAULT".to_string();
                ins.last_modified_millis = t;
                ins.register_time = t;
                ins.from_grpc = b(op, "from_grpc");
                ins.from_cluster = op["from_cluster"].as_u64().unwrap_or(0);
                ins.client_id = Arc::new(op["client_id"].as_str().unwrap_or("").to_string());
                let tag = if op["tag"].is_object() {
                    let tg = &op["tag"];
                    Some(InstanceUpdateTag {
                        weight: b(tg, "weight"),
                        metadata: b(tg, "metadata"),
                        enabled: b(tg, "enabled"),
                        ephemeral: b(tg, "ephemeral"),
                        from_update: b(tg, "from_update"),
                    })
                } else {
                    None
                };
                let existed = svc.instances.contains_key(&key);
                let old_stored = svc.instances.get(&key).cloned();
                let tag_bits = tag.as_ref().map(|t| (t.enabled, t.ephemeral, t.weight));
                let want = ins.clone();
                match owner_ref.get(&port).cloned() {
                    Some((true, _)) if existed && want.ephemeral && !want.from_grpc => {}
                    _ => {
                        owner_ref.insert(port, (want.from_grpc, want.from_cluster == 0));
                    }
                }
                svc.update_instance(ins, tag, b(op, "from_sync"), &None);
                let now = match svc.instances.get(&key) {
                    Some(x) => x.clone(),
                    None => return Err(Fail::Property(format!("op {}: a registered instance is not stored", k))),
                };
                if !existed
                    && (now.ip != want.ip || now.port != want.port || now.weight != want.weight || now.ephemeral != want.ephemeral || now.enabled != want.enabled)
                {
                    return Err(Fail::Property(format!("op {}: a new registration does not carry the values it was registered with", k)));
                }
                if let (true, Some(old_stored), true) = (existed, old_stored, mode_is_book(hist)) {
                    // an update changes exactly the fields its tag names (no tag: all of them; a heartbeat's all-false tag: none)
                    let (te, tp, tw) = tag_bits.unwrap_or((true, true, true));
                    let exp_enabled = if te { want.enabled } else { old_stored.enabled };
                    let exp_ephemeral = if tp { want.ephemeral } else { old_stored.ephemeral };
                    let exp_weight = if tw { want.weight } else { old_stored.weight };
                    if now.enabled != exp_enabled {
                        return Err(Fail::Property(format!("op {}: an update of a registered instance: the stored enabled flag is {}, the tag selects {}", k, now.enabled, exp_enabled)));
                    }
                    if now.ephemeral != exp_ephemeral {
                        return Err(Fail::Property(format!("op {}: an update of a registered instance: the stored ephemeral flag is {}, the tag selects {}", k, now.ephemeral, exp_ephemeral)));
                    }
                    if now.weight != exp_weight {
                        return Err(Fail::Property(format!("op {}: an update of a registered instance: the stored weight is {}, the tag selects {}", k, now.weight, exp_weight)));
                    }
                }
                shadow.insert(port);
                overdue.remove(&port);
            }
            "remove" => {
                let cid = op["client_id"].as_str().map(|s| Arc::new(s.to_string()));
                let old = svc.instances.get(&key).cloned();
                svc.remove_instance(&key, cid.as_ref());
                if let Some(old) = old {
                    let foreign = match &cid {
                        Some(c) => !c.is_empty() && old.client_id.as_str() != c.as_str(),
                        None => false,
                    };
                    let still = svc.instances.contains_key(&key);
                    if !still {
                        if foreign && old.ephemeral {
                            return Err(Fail::Property(format!("op {}: an ephemeral instance is removed by a client that does not own it", k)));
                        }
                        shadow.remove(&port);
                    } else if !(foreign && old.ephemeral) {
                        return Err(Fail::Property(format!(
                            "op {}: a deregistration by the owner (or without client id, or of a persistent instance) leaves the instance registered",
                            k
                        )));
                    }
                }
            }
            "mark_invalid" => svc.update_instance_healthy_invalid(&key),
            "mark_valid" => svc.update_perpetual_instance_healthy_valid(&key),
            "refresh" => svc.do_refresh_process_range(),
            "takeover" => {
                // the service fell into this node's range after a cluster change: the instances of other nodes are its responsibility now
                svc.do_refresh_process_range();
                for kk in svc.instances.keys() {
                    taken_over.insert(kk.port);
                }
            }
            "tick" => {
                let now_t = op["now"].as_i64().unwrap_or(0);
                let before: Vec<(InstanceShortKey, Arc<Instance>)> = svc.instances.iter().map(|(k, v)| (k.clone(), v.clone())).collect();
                svc.time_check(now_t - h_timeout, now_t - o_timeout);
                for (kk, v) in before {
                    let age = now_t - v.last_modified_millis;
                    let (ref_grpc, ref_local) = owner_ref.get(&kk.port).cloned().unwrap_or((v.from_grpc, v.from_cluster == 0));
                    let supervised = v.ephemeral && !ref_grpc && (ref_local || taken_over.contains(&kk.port));
                    let nowv = svc.instances.get(&kk).cloned();
                    if !supervised {
                        match nowv {
                            None => return Err(Fail::Property(format!("op {}: time_check removes an instance that is persistent, gRPC-connected or owned by another node", k))),
                            Some(n) if n.healthy != v.healthy => {
                                return Err(Fail::Property(format!("op {}: time_check changes the health of an instance that is persistent, gRPC-connected or owned by another node", k)))
                            }
                            _ => {}
                        }
                        continue;
                    }
                    if age < h_timeout {
                        match &nowv {
                            None => return Err(Fail::Property(format!("op {}: an instance whose last heartbeat is younger than the health time-out is removed", k))),
                            Some(n) if v.healthy && !n.healthy => {
                                return Err(Fail::Property(format!("op {}: an instance whose last heartbeat is younger than the health time-out is marked unhealthy", k)))
                            }
                            _ => {}
                        }
                    }
                    if age > h_timeout && v.healthy {
                        if let Some(n) = &nowv {
                            if n.healthy {
                                return Err(Fail::Property(format!("op {}: an instance silent for longer than the health time-out is still reported healthy after time_check", k)));
                            }
                        }
                    }
                    if age < o_timeout && nowv.is_none() {
                        return Err(Fail::Property(format!("op {}: an instance silent for less than the instance time-out is removed", k)));
                    }
                    if age > o_timeout && !v.healthy && nowv.is_some() {
                        if overdue.contains(&kk.port) {
                            return Err(Fail::Property(format!(
                                "op {}: an unhealthy instance silent for longer than the instance time-out survives two consecutive time checks",
                                k
                            )));
                        }
                        overdue.insert(kk.port);
                    }
                }
                let ports: Vec<u32> = shadow.iter().cloned().collect();
                for p in ports {
                    if !svc.instances.contains_key(&skey(p)) {
                        shadow.remove(&p);
                    }
                }
                owner_ref.retain(|p, _| svc.instances.contains_key(&skey(*p)));
            }
            _ => return Err(Fail::Model(format!("op {}: unknown op {}", k, name))),
        }
        invariants(&svc, k)?;
        let got: BTreeSet<u32> = svc.get_all_instances(false, false).iter().map(|x| x.port).collect();
        if got != shadow {
            return Err(Fail::Property(format!("op {}: instance query returns {:?}, registered and not removed: {:?}", k, got, shadow)));
        }
        if mode == "validate" && op["model_state"].is_object() {
            let ms = &op["model_state"];
            if ms["instance_size"].as_i64().unwrap_or(-1) != svc.instance_size || ms["healthy_instance_size"].as_i64().unwrap_or(-1) != svc.healthy_instance_size {
                return Err(Fail::Model(format!(
                    "op {}: counters are ({}, {}) in the real code, ({}, {}) in the encoding",
                    k, svc.instance_size, svc.healthy_instance_size, ms["instance_size"], ms["healthy_instance_size"]
                )));
            }
            let mut real: BTreeMap<String, (bool, bool, bool)> = BTreeMap::new();
            for (kk, v) in svc.instances.iter() {
                real.insert(kk.port.to_string(), (v.healthy, v.ephemeral, v.enabled));
            }
            let mut model: BTreeMap<String, (bool, bool, bool)> = BTreeMap::new();
            if let Some(m) = ms["instances"].as_object() {
                for (p, f) in m {
                    model.insert(p.clone(), (b(f, "healthy"), b(f, "ephemeral"), b(f, "enabled")));
                }
            }
            if real != model {
                return Err(Fail::Model(format!("op {}: instances (healthy, ephemeral, enabled) are {:?} in the real code, {:?} in the encoding", k, real, model)));
            }
        }
    }
    Ok(())
}
