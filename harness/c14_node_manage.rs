//! C14 — distro ownership: every service key has exactly one owner among the live nodes of a view,
//! and the HTTP write route picks that node.
//! Lives inside naming/cluster/node_manage.rs (hook) because InnerNodeManage's fields and
//! get_current_process_range / update_nodes_index / get_all_nodes are private.
#![allow(dead_code, unused_imports, clippy::all)]
use super::*;
use crate::verif_harness::support::*;

pub const MAXN: usize = 5;
/// node ids of the view: strictly increasing, not contiguous (only their order matters to the code)
pub const IDS: [u64; MAXN] = [3, 7, 8, 20, 21];

/// the view as node `local_pos` sees it: same membership, same liveness of the others.
/// N is concrete per harness (the BTreeMap then has a concrete shape; liveness stays symbolic).
fn build_view<const N: usize>(valid: &[bool; N], local_pos: usize) -> InnerNodeManage {
    let mut m = InnerNodeManage::new(IDS[local_pos]);
    let mut i = 0;
    while i < N {
        let node = ClusterInnerNode {
            id: IDS[i],
            index: 0,
            is_local: i == local_pos,
            addr: Arc::new(String::new()),
            status: if valid[i] { NodeStatus::Valid } else { NodeStatus::Invalid },
            last_active_time: 0,
            sync_sender: None,
            client_set: Default::default(),
        };
        m.all_nodes.insert(IDS[i], node);
        i += 1;
    }
    m.update_nodes_index();
    m
}

/// K14.1 + K14.2 for cluster size N, every liveness vector, every hash value (u8: every residue
/// modulo 1..=5 has a representative below 60).
pub fn k14_owner_and_route<S: Src, const N: usize>(s: &mut S) {
    let mut valid = [false; N];
    let mut live = 0usize;
    let mut i = 0;
    while i < N {
        valid[i] = s.bool();
        if valid[i] {
            live += 1;
        }
        i += 1;
    }
    s.assume(live >= 1);
    let h = s.u8() as usize;

    // a dead node with a smaller id than a live one (the interesting region)
    let mut dead_below_live = false;
    let mut seen_dead = false;
    let mut i = 0;
    while i < N {
        if !valid[i] {
            seen_dead = true;
        } else if seen_dead {
            dead_below_live = true;
        }
        i += 1;
    }
    if N > 1 {
        vcover!(s, dead_below_live, "a dead node has a smaller id than a live node");
        vcover!(s, live == N, "all nodes alive");
    }
    if dead_below_live {
        s.tag("dead-lower-id-node");
    }

    // every live node evaluates its own range over the same view; routing as NodeManage::route_addr
    // does it from that node's copy of the view:
    //   nodes = get_all_nodes().filter(status == Valid); node = nodes[hash % nodes.len()]
    let mut owners = 0usize;
    let mut owner_pos = N;
    let mut route_pos = [N; N];
    let mut route_local_ok = true;
    let mut p = 0;
    while p < N {
        if valid[p] {
            let m = build_view::<N>(&valid, p);
            let range = m.get_current_process_range();
            if range.is_range(h) {
                owners += 1;
                owner_pos = p;
            }
            #[cfg(kani)]
            let nodes: Vec<ClusterNode> = m
                .get_all_nodes()
                .into_iter()
                .filter(|e| e.status == NodeStatus::Valid)
                .collect();
            // native replay: the list route_addr really uses (NodeManage::get_all_valid_nodes through the actor)
            #[cfg(not(kani))]
            let nodes: Vec<ClusterNode> = valid_nodes_via_actor(build_view::<N>(&valid, p));
            if !nodes.is_empty() {
                let index = h % nodes.len();
                let target = nodes.get(index).unwrap();
                let mut k = 0;
                while k < N {
                    if IDS[k] == target.id {
                        route_pos[p] = k;
                    }
                    k += 1;
                }
                if target.is_local != (route_pos[p] == p) {
                    route_local_ok = false;
                }
            }
            std::mem::forget(nodes);
            std::mem::forget(m);
        }
        p += 1;
    }
    vcheck!(s, owners >= 1, "service key has no owner among the live nodes");
    vcheck!(s, owners <= 1, "service key has more than one owner among the live nodes");
    let mut p = 0;
    while p < N {
        if valid[p] {
            vcheck!(s, route_pos[p] < N, "no routable node although a live node exists");
            vcheck!(s, route_pos[p] == owner_pos, "write is routed to a node that does not consider itself the owner");
        }
        p += 1;
    }
    vcheck!(s, route_local_ok, "route marks the wrong node as local");
}

pub fn k14_n1<S: Src>(s: &mut S) {
    k14_owner_and_route::<S, 1>(s)
}
pub fn k14_n2<S: Src>(s: &mut S) {
    k14_owner_and_route::<S, 2>(s)
}
pub fn k14_n3<S: Src>(s: &mut S) {
    k14_owner_and_route::<S, 3>(s)
}
pub fn k14_n4<S: Src>(s: &mut S) {
    k14_owner_and_route::<S, 4>(s)
}
pub fn k14_n5<S: Src>(s: &mut S) {
    k14_owner_and_route::<S, 5>(s)
}

/// the node list NodeManage::route_addr indexes: the real async NodeManage::get_all_valid_nodes on a started InnerNodeManage actor
#[cfg(not(kani))]
fn valid_nodes_via_actor(m: InnerNodeManage) -> Vec<ClusterNode> {
    use actix::Actor;
    actix_rt::System::new().block_on(async move {
        let addr = m.start();
        NodeManage::new(addr).get_all_valid_nodes().await.unwrap_or_default()
    })
}

/// translator validation for engine S: print what the real code answers for one concrete view
/// (vals: n, live[0..n], hash % 60); compared by rs2smt/c14.py with its encoding of the same functions
#[cfg(not(kani))]
pub fn k14_dump(s: &mut RSrc) {
    let n = s.u8() as usize;
    let mut valid = [false; MAXN];
    for i in 0..n {
        valid[i] = s.bool();
    }
    let h = s.u8() as usize;
    for p in 0..n {
        if !valid[p] {
            continue;
        }
        let mut m = InnerNodeManage::new(IDS[p]);
        for i in 0..n {
            m.all_nodes.insert(
                IDS[i],
                ClusterInnerNode {
                    id: IDS[i],
                    index: 0,
                    is_local: i == p,
                    addr: Arc::new(format!("addr-{}", IDS[i])),
                    status: if valid[i] { NodeStatus::Valid } else { NodeStatus::Invalid },
                    last_active_time: 0,
                    sync_sender: None,
                    client_set: Default::default(),
                },
            );
        }
        m.update_nodes_index();
        let owns = m.get_current_process_range().is_range(h);
        let nodes: Vec<ClusterNode> = valid_nodes_via_actor(m);
        let tgt = if nodes.is_empty() { 0 } else { nodes[h % nodes.len()].id };
        println!("VERIF-OUT view={} owns={} route={}", IDS[p], owns, tgt);
    }
}

#[cfg(not(kani))]
pub fn replay(name: &str, s: &mut RSrc) -> bool {
    match name {
        "k14_n1" => k14_n1(s),
        "k14_n2" => k14_n2(s),
        "k14_n3" => k14_n3(s),
        "k14_n4" => k14_n4(s),
        "k14_n5" => k14_n5(s),
        "k14_dump" => k14_dump(s),
        _ => return false,
    }
    true
}
