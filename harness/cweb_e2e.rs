//! Native end-to-end replay for C16: the real actix App of the OpenAPI port (ApiCheckAuth middleware
//! wrapping web_config::app_config), built on a real AppShareData in a temp dir, receives the
//! solver's request; the counterexample is confirmed when a data route answers anything but 403
//! although auth is on and no token is presented.
#![allow(dead_code, unused_imports, clippy::all)]
#[cfg(not(kani))]
pub fn replay_file() {
    let path = std::env::var("VERIF_REPLAY").expect("VERIF_REPLAY not set");
    let txt = std::fs::read_to_string(&path).expect("replay file unreadable");
    let v: serde_json::Value = serde_json::from_str(&txt).expect("replay file not json");
    let message = v["message"].as_str().unwrap_or("request served without a token although auth is on").to_string();
    let reqs: Vec<(String, String, bool)> = v["requests"]
        .as_array()
        .cloned()
        .unwrap_or_default()
        .iter()
        .map(|r| {
            (
                r["method"].as_str().unwrap_or("GET").to_string(),
                r["path"].as_str().unwrap_or("/").to_string(),
                r["expect_forbidden"].as_bool().unwrap_or(true),
            )
        })
        .collect();
    let results = actix_rt::System::new().block_on(async move {
        use crate::common::AppSysConfig;
        use crate::openapi::middle::auth_middle::ApiCheckAuth;
        use crate::starter::{build_share_data, config_factory};
        use actix_web::{test, web::Data, App};
        use std::sync::Arc;
        let dir = tempfile::tempdir().unwrap();
        let sys_config = AppSysConfig {
            local_db_dir: dir.path().join("db").to_string_lossy().to_string(),
            raft_node_id: 1,
            raft_node_addr: "127.0.0.1:19848".to_string(),
            raft_auto_init: false,
            raft_snapshot_log_size: 10000,
            openapi_enable_auth: true,
            ..Default::default()
        };
        let conf = sys_config.clone();
        let factory_data = config_factory(Arc::new(sys_config)).await.unwrap();
        let app_data = build_share_data(factory_data).unwrap();
        let app = test::init_service(
            App::new()
                .app_data(Data::new(app_data.clone()))
                .wrap(ApiCheckAuth::new(app_data.clone()))
                .configure(crate::web_config::app_config(conf)),
        )
        .await;
        let mut out = vec![];
        for (m, p, _e) in &reqs {
            let req = test::TestRequest::default()
                .method(actix_web::http::Method::from_bytes(m.as_bytes()).unwrap())
                .uri(p)
                .to_request();
            let resp = test::call_service(&app, req).await;
            out.push(resp.status().as_u16());
        }
        out
    });
    let mut mismatch = 0;
    for ((m, p, expect_forbidden), st) in v["requests"]
        .as_array()
        .cloned()
        .unwrap_or_default()
        .iter()
        .map(|r| (r["method"].as_str().unwrap_or("GET").to_string(), r["path"].as_str().unwrap_or("/").to_string(), r["expect_forbidden"].as_bool().unwrap_or(true)))
        .zip(results.iter())
    {
        println!("VERIF-E2E {} {} -> {}", m, p, st);
        if (*st == 403) != expect_forbidden {
            mismatch += 1;
        }
    }
    let mode = v["mode"].as_str().unwrap_or("violation");
    if mode == "violation" {
        // every request of the counterexample was expected NOT to be refused; confirmed when none of them is refused
        if mismatch == 0 {
            panic!("VERIF-REPLAY-CHECK-FAILED: {}", message);
        }
        println!("VERIF-REPLAY-PASSED covers=[] (counterexample not confirmed end to end)");
    } else {
        if mismatch > 0 {
            panic!("VERIF-VALIDATE-MISMATCH {}", mismatch);
        }
        println!("VERIF-REPLAY-PASSED covers=[] validated={}", results.len());
    }
}
