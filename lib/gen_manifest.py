"""regenerates /verif/MANIFEST.json from lib/registry.py (run: python3-vt -m lib.gen_manifest)"""
import json
import subprocess
import sys

from . import registry

LEVEL_TEXT = {
 "C01": "Bounded symbolic execution (rs2smt + z3) of (a) the real SnapshotWriter / SnapshotReader / message code over a modelled file and protobuf primitive layer, including a file left by an interrupted build (counterexamples replayed on real files), and (b) the start-up chain StateApplyManager::{init,load_index,load_snapshot,load_log,load_complete} with recording collaborators and symbolic catalogue / last-applied index: snapshot before log, replay range exactly the applied suffix, load-complete delivered. plus the snapshot records of five components: the config component's build -> load round trip (GET, history, index, id sequence), the namespace registry, the MCP record order, the user table through the data handler's dispatch by tree name, the persistent naming instances field by field (arbitrary f32 weight, flags, metadata; replayed on a real NamingActor through a real snapshot file). The cache component's records and the log-replay handlers of the table / naming components are outside.",
 "C02": "Bounded model checking (Kani/CBMC) of the log file's index arithmetic at full integer width (index rewind, index-area parsing, scan start) plus bounded symbolic execution (rs2smt + z3) of the real LogInnerManager over a modelled file layer: appends, a refused wrong-index append, reopen. The chunk-boundary end-of-log logic is decided under C20.",
 "C03": "Bounded model checking (Kani/CBMC) of the truncation arithmetic for every cut point and index-entry width, plus bounded symbolic execution (rs2smt + z3) of the real LogInnerManager: appends, delete-from every k (on and across index entries), re-appends of any length, optional reopen; at the catalogue level which files a cut reaches, which stay, which is current, and that the shortened catalogue is saved (replayed on a real node across a real rollover + restart).",
 "C04": "Bounded symbolic execution (rs2smt + z3) of the real log-file code with a symbolic crash point over the journal of its file mutations (also inside an operation, also during the creation of a new file) and of the raft index file: the log reopens and shows the state of the last acknowledged operation or of the one in flight; counterexamples and sampled paths are executed on the real LogInnerManager. Across files: the snapshot catalogue under a process death behind every prefix of {remove outdated snapshot files, rewrite the catalogue} (validated on the real managers with crash images) and the write order of a log compaction (records, flush, catalogue, log pointer) and of a snapshot installation (the catalogue names the snapshot before the log is cut).",
 "C05": "Bounded symbolic execution (rs2smt + z3) of the real index-file code (init, write_index, write_last_applied_log, message code, FileMessageReader) over a modelled file layer: save hard state then restart, symbolic 64-bit values; every sequence of 2-3 requests to the RaftIndexManager actor (hard state, membership, addresses, catalogue, last-applied) observed in-process and after restart; plus Kani for the id codec at all u64.",
 "C07": "Translation validation of three programs (leader apply, follower batch, start-up replay): each request variant is symbolically evaluated through the three real function bodies and the emitted (actor, message) terms are compared by z3; plus the last-applied bookkeeping of the batch path vs the single path, plus the config actor itself on a leader and a follower replica after the same committed requests, plus the MCP registry on a replica that applies the log one by one and on one that restarts behind any prefix (log replay or the component's snapshot, then load-complete): same answers, same state (replayed on two real McpManager actors).",
 "C08": "Bounded symbolic execution (rs2smt + z3) of the receiving side of a snapshot installation in one process: FileStore::finalize_snapshot_installation and the ApplySnapshot handler of StateApplyManager with recording collaborators; oracle over the emissions (catalogue entry, membership, log split-off and pointer entry, every snapshot record delivered to the state machine followed by load-complete); counterexamples replayed on a real node through RaftStorage::{create_snapshot, finalize_snapshot_installation}. Plus the file a snapshot stream is received into under resent chunks and an interrupted earlier transfer (replayed on a real node), and the content of the snapshot for the data the property names: configuration, namespace and user records written by the leader's components and loaded by a fresh follower component. Narrow: the sending side and the raft protocol around the installation are outside. One known finding (S08-a).",
 "C09": "Bounded symbolic execution of the real config-store source (set_config, del_config, GET, index, history; tmp value and full-value import; listings under group / dataId filters on every page; the listing parameters of the OpenAPI accurate / blur search and of the console with arbitrary group / dataId strings; the keys the four gRPC config handlers build for arbitrary request strings) over every history of 3-4 operations with arbitrary string contents, decided by z3; counterexamples and sampled histories run on a real ConfigActor with the real md5.",
 "C10": "Bounded symbolic execution of the real long-poll listener and gRPC subscriber source over every interleaving of 3-4 actor messages (listen, publish, remove, tick, tmp value of a forwarded publish, subscribe / unsubscribe / disconnect) with symbolic md5s / contents; oracle in state form: no registered listener holds an md5 that differs from the stored one.",
 "C11": "Bounded symbolic execution of the real naming Service source over every history of 3 operations on two addresses with symbolic instance flags (counters, persistent set and instance map agree after every step) and of the NamingActor registration paths (gRPC / HTTP register, deregister, connection close): the per-connection reverse map matches the stored owners after every step; the namespace / group index and the clean-up of empty services over three services (a service with an instance is never dropped; index == map); counterexamples and sampled paths run on the real Service / NamingActor.",
 "C12": "Bounded symbolic execution of the real naming Service source (query results vs a reference registry, removal ownership, fields of a new registration, the query filter for all flag combinations through the three query entry points: service info, instance list, instance page) and of the NamingActor registration paths: a connection close removes every instance the connection owns and nothing else.",
 "C13": "Bounded symbolic execution of Service::time_check over the real TimeoutSet source with the clock on a grid around the two time-outs (beating instances are never expired, silent ones are marked and removed, unsupervised ones are untouched, instances taken over from another node are supervised) and of the NamingActor's timer path with the clock as a model variable (heartbeats refresh the last-beat time; every expiry is handed to the cluster sync and the subscribers, also at the per-round cut-off).",
 "C14": "Bounded symbolic execution of the real ownership and routing source for every cluster size up to 5, symbolic liveness and all 2^64 hash values, decided by z3; counterexamples replayed against the native build; plus every history of 3-4 timer ticks / pings on a 3-node cluster: the cached owner range follows the live set and the naming actor is told every change; and what the naming actor does with a range: the services inside it are taken over (their instances from another node become local and supervised), nothing else changes.",
 "C16": "Symbolic evaluation of the real route registration, auth middleware (session lookup answering session / no session / error), login handler (token lifetime), the replicated cache table that stores the sessions (nothing is served past login time + lifetime, whenever the entry is applied; every history of 3-4 requests with a symbolic clock), gRPC dispatcher and token gate source into string/regex/bit-vector SMT queries: route-language inclusion in the checked-path language (including percent-encoded spellings as actix requotes them), decision implication of the middleware, dispatch implication for every gRPC request type; counterexamples confirmed against the real predicates and end to end against the real App.",
 "C17": "Symbolic evaluation of the real console route table, role tables and login middleware source into SMT: unchecked API routes, role monotonicity, write protection, unknown roles, multi-role union, middleware decision; counterexamples confirmed against the real predicates.",
 "C18": "Symbolic evaluation of the privilege algebra and the two listing filters from the real source with an arbitrary privilege group and namespace string. Plus the way a restriction travels from the administrator's create / update request through the stored user record into a new session's group (replayed on a real single-node application). And the console handlers' call sites: every handler whose request names a namespace reaches the data layer only behind a successful permission check on that namespace (43 handlers evaluated from source, including the handler functions of other modules that console routes point to; violations replayed on the real handlers with a restricted session; 9 MCP handlers and 4 mounted OpenAPI handlers are known findings). And the composed configuration key: a key that passed ConfigKey::is_valid survives build_key -> from for arbitrary strings, and a handler hands a key built from request strings to the raft route only behind that gate.",
 "C19": "Bounded model checking (Kani/CBMC) of SeqGroup under every schedule of the SequenceManager protocol and of SimpleSequence under leader change / snapshot / replay histories, plus symbolic evaluation of ConfigActor::set_config for the replicated high-water mark, of the replicated sequence table (every history of 4-5 requests incl. snapshot + load) and of two nodes' SequenceManagers in front of it (every schedule of 7-9 requests / fetch completions / self-sent fills, then a drain).",
 "C20": "Bounded model checking (Kani/CBMC): varint writer/reader/size agree for all 2^64 values; the reader's buffer compaction keeps the unread remainder for every buffer content and read position; MessageBufReader decodes every well-formed 8-byte stream identically to a reference decoder under fixed-size chunked reads for both consumer protocols of the repository; bounded symbolic execution (rs2smt + z3) of FileMessageReader over a file model: files of 2-3 records including records shorter than the 10-byte length peek, with and without zero padding; the snapshot reader, the naming metadata files (records file and file map) and the transfer files (both readers) at the source's own 1024-byte chunk size.",
}
NA = {
 "C04": "crash points between file writes: needs the file-level scenarios of the log file (beyond Kani's memory reach at the 4096/1024/1 MB layout) or cross-file orders that exist only as actor message schedules; see DESIGN.md section 4",
 "C06": "needs a 3-process Raft cluster under kill/stop/restart schedules (async-raft core, tonic transport): not encodable as a bounded symbolic execution with the installed engines",
 "C08": "snapshot installation is a two-process protocol driven by async-raft; its effect is a sequence of actor messages: not encodable",
 "C15": "convergence after quiescence over message schedules and node failures of a 3-node cluster: a liveness property over network schedules; no bounded symbolic encoding of the multi-process code is within reach",
}


def technique(spec):
    k, s = bool(spec.get("kani")), bool(spec.get("smt"))
    if k and s:
        return "Kani 0.68 / CBMC bounded model checking + bounded symbolic execution of the Rust source (rs2smt, z3)"
    if k:
        return "Kani 0.68 / CBMC bounded model checking of the real crate"
    return "bounded symbolic execution of the Rust source (rs2smt: own parser + forking evaluator) decided by z3"


def main():
    checks = []
    for pid in sorted(registry.PROPS):
        spec = registry.PROPS[pid]
        eng = ("K+S" if spec.get("kani") and spec.get("smt") else "K" if spec.get("kani") else "S")
        checks.append({
            "property_id": pid,
            "quick_cmd": "./check %s --tier quick" % pid,
            "thorough_cmd": "./check %s --tier thorough" % pid,
            "evidence_file": "/verif/evidence/%s.json" % pid,
            "replay_cmd_template": "./check %s --replay {path}" % pid,
            "engine": eng,
            "level_claimed": {"category": spec["level"], "text": LEVEL_TEXT[pid], "design_ref": "DESIGN.md sections 2 and 3 (%s)" % pid},
            "level_note": ("; ".join(spec.get("assumptions", [])) + " | outside the claim: " + spec.get("outside", ""))[:2500],
            "technique": technique(spec),
        })
    na = {k: v for k, v in NA.items() if k not in registry.PROPS}
    commits = subprocess.run(["git", "-C", "/repo", "log", "--format=%H %s"], capture_output=True, text=True).stdout.splitlines()
    m = {
        "version": 1,
        "setup_cmd": "./setup.sh",
        "hooks": {
            "guard": "cfg(any(kani, rnacos_verif))",
            "enable": "cfg(kani) is set by cargo-kani itself; the native replay build sets --cfg rnacos_verif from the build script of a shadow package generated outside /repo (lib/shadow.py: /repo's [package]/[dependencies] copied, [lib] path = /repo/src/lib.rs); /repo/Cargo.toml is not touched",
            "baseline_off_cmd": "cd /repo && cargo test --workspace --no-fail-fast --offline",
            "source_commits": [c.split()[0] for c in commits if "verif hook" in c],
            "add_only": True,
        },
        "engines": [
            {"name": "K", "path": "/verif/lib/kani_engine.py + /verif/harness/*.rs + /verif/shim (cfg(kani) in-memory tokio::fs)",
             "serves_properties": sorted(p for p, s in registry.PROPS.items() if s.get("kani")),
             "kind_free_text": "Kani 0.68 / CBMC 6.11 bounded model checking of /repo's crate compiled from the current working tree through a shadow package; counterexamples extracted by concrete playback and re-executed natively"},
            {"name": "S", "path": "/verif/rs2smt (rsparse.py, rseval.py, iomodel.py, routes.py, cNN.py)",
             "serves_properties": sorted(p for p, s in registry.PROPS.items() if s.get("smt")),
             "kind_free_text": "bounded symbolic execution of the Rust source text (own parser + evaluator forking on symbolic branches, z3 for path feasibility and obligations); environment models listed per check; translator validated against the native build where a native predicate exists"},
        ],
        "checks": checks,
        "not_applicable": [{"property_id": k, "reason": v} for k, v in sorted(na.items())],
        "notes": "Every check regenerates its encoding from /repo's current working tree. Exit codes: 0 = all obligations discharged (KNOWN-FINDING lines allowed), 1 = VIOLATION (counterexample replayed), 2 = INCONCLUSIVE (time-out, memory, unencodable source, unreproduced model); see DESIGN.md section 0. Fix commits in /repo start with 'fix:' and are listed in known_findings.json (fixed entries suppress nothing).",
    }
    json.dump(m, open("/verif/MANIFEST.json", "w"), indent=1)
    import jsonschema
    jsonschema.validate(m, json.load(open("/root/.vp/MANIFEST.schema.json")))
    print("manifest ok: %d checks, %d not applicable" % (len(checks), len(na)))


if __name__ == "__main__":
    main()
