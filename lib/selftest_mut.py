"""Development self-test of engine S: apply small textual mutations to a scratch copy of /repo/src (never to /repo),
point the encoder at it (VERIF_REPO) and expect the named obligation to report a violation.
usage: python3-vt -m lib.selftest_mut            (native steps are skipped: the native build is of /repo)"""
import importlib
import os
import shutil
import subprocess
import sys

MUTS = [
    ("C10", "c10", "src/config/core.rs", "        self.tenant_index.remove_config(&key);\n        self.listener.notify(key.clone());", "        self.tenant_index.remove_config(&key);", "s10_1_long_poll"),
    ("C10", "c10", "src/config/config_subscribe.rs", "                if set.is_empty() {\n                    remove_keys.push(item.key.clone());\n                }", "", "s10_2_subscribers"),
    ("C09", "c09", "src/config/core.rs", "            if !v.tmp && v.md5.as_str() == md5 {\n                return Ok(ConfigResult::NULL);\n            }", "            if v.md5.as_str() == md5 || v.histories.len() > 1 {\n                return Ok(ConfigResult::NULL);\n            }", "s09_1_history"),
    ("C09", "c09", "src/config/core.rs", "        self.cache.remove(&key);\n        //self.config_db.del_config(&key).ok();\n        self.tenant_index.remove_config(&key);", "        self.cache.remove(&key);", "s09_1_history"),
    ("C16", "c16", "src/openapi/middle/auth_middle.rs", '"/nacos/v1/auth/login", "/nacos/v1/auth/users/login"', '"/nacos/v1/auth/login", "/nacos/v1/cs/configs", "/nacos/v1/auth/users/login"', "s16_1_routes_checked"),
    ("C16", "c16", "src/openapi/middle/auth_middle.rs", "            } else if token.is_empty() {\n                false", "            } else if token.is_empty() {\n                ignore_metrics", "s16_2_middleware_decision"),
    ("C16", "c16", "src/grpc/handler/mod.rs", "            || HEALTH_CHECK_REQUEST.eq(t)\n            || RAFT_APPEND_REQUEST.eq(t)", "            || HEALTH_CHECK_REQUEST.eq(t)\n            || CONFIG_QUERY_REQUEST.eq(t)\n            || RAFT_APPEND_REQUEST.eq(t)", "s16_3_grpc_dispatch"),
    ("C17", "c17", "src/console/middle/login_middle.rs", "let is_check_path = !IGNORE_CHECK_LOGIN.contains(&path) && !STATIC_FILE_PATH.is_match(path);", "let is_check_path = !IGNORE_CHECK_LOGIN.contains(&path) && !STATIC_FILE_PATH.is_match(path) && !path.ends_with(\"/list\");", "s17_1_api_routes_checked"),
    ("C17", "c17", "src/console/middle/login_middle.rs", "            if is_login {\n                if user_has_permission {", "            if is_login {\n                if user_has_permission || is_page {", "s17_5_middleware_decision"),
    ("C18", "c18", "src/common/model/privilege.rs", "    pub fn check_permission(&self, key: &T) -> bool {\n        self.at_whitelist(key) && !self.at_blacklist(key)", "    pub fn check_permission(&self, key: &T) -> bool {\n        self.at_whitelist(key) || !self.at_blacklist(key)", "s18_1_check_permission"),
    ("C18", "c18", "src/naming/service_index.rs", "            for (namespace_id, service_index) in &self.namespace_group {\n                if param.namespace_privilege.check_permission(namespace_id) {", "            for (namespace_id, service_index) in &self.namespace_group {\n                if true {", "s18_2_query_service_page"),
    ("C07", "c07", "src/raft/filestore/raftdata.rs", "            ClientRequest::NamespaceReq(req) => {\n                self.namespace.do_send(req);", "            ClientRequest::NamespaceReq(req) => {\n                self.table.do_send(Default::default()); let _ = req;", "s07_NamespaceReq"),
    ("C14", "c14", "src/naming/cluster/model.rs", "self.len < 2 || (hash_value % self.len) == self.index", "self.len < 2 || (hash_value % self.len) <= self.index", "s14_n2"),
    # obligations of rounds 9-11 (module entry points differ: "module:function")
    ("C18", "c18sites", "src/console/v2/config_api.rs", "pub async fn remove_config(\n    req: HttpRequest,\n    web::Json(param): web::Json<ConfigParams>,\n    appdata: Data<Arc<AppShareData>>,\n) -> impl Responder {\n    let config_key = param.to_key();\n    let namespace_privilege = user_namespace_privilege!(req);\n    if !namespace_privilege.check_permission(&config_key.tenant) {",
     "pub async fn remove_config(\n    req: HttpRequest,\n    web::Json(param): web::Json<ConfigParams>,\n    appdata: Data<Arc<AppShareData>>,\n) -> impl Responder {\n    let config_key = param.to_key();\n    let namespace_privilege = user_namespace_privilege!(req);\n    if false && !namespace_privilege.check_permission(&config_key.tenant) {", "s18_4_handler_call_sites"),
    ("C04", "c04snap", "src/raft/filestore/raftsnapshot.rs", "for item in &self.snapshots[0..split_index] {", "for item in &self.snapshots[0..=split_index] {", "s04_4_snapshot_catalogue_crash_points"),
    ("C11", "c11index", "src/naming/core.rs", "            if service.instance_size <= 0\n                && now - self.sys_config.service_time_out_millis", "            if service.healthy_instance_size <= 0\n                && now - self.sys_config.service_time_out_millis", "s11_3_service_index_and_cleanup"),
    ("C19", "c19seq", "src/sequence/core.rs", "self.seq_map.insert(key.clone(), step + 1);", "self.seq_map.insert(key.clone(), step);", "s19_6_sequence_table"),
    ("C01", "c01cfg", "src/config/model.rs", "value.histories.iter().last().map(|e| e.last_time)", "value.histories.first().map(|e| e.last_time)", "s01_5_config_snapshot_roundtrip"),
    ("C08", "c08stream", "src/raft/filestore/core.rs", "                    .create(true)\n                    .truncate(true)\n", "                    .create(true)\n", "s08_3_snapshot_stream_file"),
    ("C20", "c20big", "src/common/protobuf_utils.rs", "        message_buf[i - start] = message_buf[i];", "        message_buf[i - start] = message_buf[i - 1];", "s20_6_snapshot_reader_real_scale"),
    ("C03", "c03files", "src/raft/filestore/raftlog/mod.rs", "                last_log.log_range.is_close = false;\n", "", "s03_3_file_selection"),
    ("C02", "c03files:run_compaction", "src/raft/filestore/raftlog/mod.rs", "                item.log_range.split_off_index = split_off_index;\n", "", "s02_8_compaction_pointer_catalogue"),
    ("C05", "c05store", "src/raft/filestore/core.rs", "            voted_for: hs.voted_for.unwrap_or_default(),", "            voted_for: if hs.current_term > 0 { hs.voted_for.unwrap_or_default() } else { 0 },", "s05_4_filestore_hard_state"),
    ("C07", "c07cfg", "src/config/core.rs", "        if let Some(history_table_id) = param.history_table_id {\n            self.sequence.set_valid_last_id(history_table_id);\n        }\n", "", "s07_config_component_paths"),
    # rounds 12 - 14
    ("C16", "c16cache", "src/cache/core.rs", "            self.set_value(set_info.key, set_info.value, set_info.ttl + set_info.now)", "            self.set_value(set_info.key, set_info.value, set_info.ttl + now_second_i32())", "s16_7_session_deadline"),
    ("C09", "c09search", "src/openapi/config/api.rs", "            group: self.group.map(Arc::new),\n            data_id: self.data_id.map(Arc::new),", "            like_group: self.group,\n            data_id: self.data_id.map(Arc::new),", "s09_6_search_parameters"),
    ("C09", "c09grpc", "src/grpc/handler/config_query.rs", "            &ConfigUtils::default_tenant(request.tenant),", "            &request.tenant,", "s09_7_grpc_keys"),
    ("C12", "c12query", "src/naming/core.rs", "                service.get_instance_list(cluster_names, false, true),\n                Some(service.get_metadata()),\n                only_healthy,", "                service.get_instance_list(cluster_names, false, false),\n                Some(service.get_metadata()),\n                only_healthy,", "s12_3_query_protection_threshold"),
    ("C01", "c01naming", "src/naming/model.rs", "            enabled: instance_do.enabled,\n            healthy: instance_do.healthy,", "            enabled: true,\n            healthy: instance_do.healthy,", "s01_6_naming_snapshot_roundtrip"),
    ("C01", "c01table", "src/raft/db/table.rs", "        for table_info in self.table_map.values() {\n            for (key, value) in &table_info.table_data {\n                let record = SnapshotRecordDto {\n                    tree: table_info.name.clone(),\n                    key: key.to_owned(),\n                    value: value.to_owned(),", "        for table_info in self.table_map.values() {\n            for (key, value) in &table_info.table_data {\n                let record = SnapshotRecordDto {\n                    tree: table_info.name.clone(),\n                    key: value.to_owned(),\n                    value: value.to_owned(),", "s01_7_user_table_snapshot_roundtrip"),
    ("C20", "c20meta", "src/naming/instance_meta_repository.rs", "        let mut data_buf = vec![0u8; 1024];\n        let mut records = Vec::new();\n        let read_len = file.read(&mut data_buf).await?;", "        let mut data_buf = vec![0u8; 1024];\n        let mut records = Vec::new();\n        let read_len = file.read(&mut data_buf[..1000]).await?;", "s20_7_metadata_files"),
    ("C07", "c07mcp", "src/mcp/utils.rs", "            } else {\n                tool_spec_map.remove(&version);\n            }", "            }", "s07_mcp_component_paths"),
    ("C07", "c07mcp", "src/mcp/core.rs", "        self.tool_spec_version_ref_map = tool_spec_version_ref_map;\n        self.sync_tool_spec_ref_count();", "        self.tool_spec_version_ref_map = tool_spec_version_ref_map;", "s07_mcp_component_paths"),
    ("C19", "c19mgr", "src/sequence/mod.rs", "                if let Some(v) = self.seq_map.get_mut(&key) {\n                    v.apply_range(start, len);\n                    v.clear_apply_mark();\n                }", "                if let Some(v) = self.seq_map.get_mut(&key) {\n                    v.clear_apply_mark();\n                    v.apply_range(start - 1, len);\n                }", "s19_7_sequence_manager"),
    ("C18", "c18key", "src/config/core.rs", "        if !param_utils::is_valid(self.group.as_str()) {", "        if !param_utils::is_valid(self.data_id.as_str()) {", "s18_5_composed_key"),
    ("C18", "c18sites", "src/console/v2/config_api.rs", "    if let Err(e) = config_key.is_valid() {\n        return HttpResponse::Ok().json(ApiResult::<()>::error(\n            ERROR_CODE_SYSTEM_ERROR.to_string(),\n            Some(e.to_string()),\n        ));\n    }\n    let req = DelConfigReq::new(config_key);", "    let req = DelConfigReq::new(config_key);", "s18_4_handler_call_sites"),
    ("C13", "c11:run_c13", "src/naming/service.rs", "                    .add(instance.last_modified_millis as u64, key.clone());\n                self.instances.insert(key, Arc::new(instance));", "                    .add(instance.register_time as u64, key.clone());\n                self.instances.insert(key, Arc::new(instance));", "s13_expiry"),
    # rounds 15-16
    ("C08", "c03files:run_install_none", "src/raft/filestore/core.rs", "            u64::MAX\n        };", "            0\n        };", "s08_8_installation_empties_the_log"),
    ("C08", "c03files:run_install_none", "src/raft/filestore/raftlog/mod.rs", "                self.current_log_actor = None;\n", "", "s08_8_installation_empties_the_log"),
    ("C08", "c08:run_obligations", "src/raft/filestore/core.rs", "            u64::MAX\n        };", "            0\n        };", "s08_2_catalogue_membership_log"),
    ("C01", "c01orch", "src/raft/filestore/raftapply.rs", "if let Some(e) = raft_index.snapshots.last() {", "if let Some(e) = raft_index.snapshots.first() {", "s01_2_startup_orchestration"),
    ("C11", "c11index", "src/naming/core.rs", "            if service.instance_size <= 0\n                && now - self.sys_config.service_time_out_millis >= service.last_empty_times\n            {\n", "            if service.instance_size <= 0 {\n                self.namespace_index.remove_service(&service_map_key);\n            }\n            if service.instance_size <= 0\n                && now - self.sys_config.service_time_out_millis >= service.last_empty_times\n            {\n", "s11_3_service_index_and_cleanup"),
    ("C13", "c11:run_c13", "src/naming/service.rs", "            if instance.ephemeral && !instance.from_grpc && old_instance.from_grpc {", "            if instance.ephemeral && !instance.from_grpc && old_instance.from_grpc && !old_instance.is_from_cluster() {", "s13_expiry"),
]


def main():
    scratch = "/var/tmp/verif-work/selftest-repo"
    os.environ["VERIF_NO_NATIVE"] = "1"
    ok = 0
    muts = MUTS[-int(os.environ['VERIF_SELFTEST_LAST']):] if os.environ.get('VERIF_SELFTEST_LAST') else MUTS
    for prop, mod, f, old, new, expect in muts:
        if os.path.exists(scratch):
            shutil.rmtree(scratch)
        shutil.copytree("/repo/src", os.path.join(scratch, "src"))
        p = os.path.join(scratch, f)
        s = open(p).read()
        if old not in s:
            print("SKIP (anchor text not found) %s %s" % (prop, f))
            continue
        open(p, "w").write(s.replace(old, new, 1))
        env = dict(os.environ, VERIF_REPO=scratch)
        modname, fn = (mod.split(":") + ["run"])[:2]
        r = subprocess.run([sys.executable, "-c", "import json,sys\nsys.path.insert(0,'/verif')\nimport rs2smt.%s as m\nr=m.%s('quick',0)\nr=r['obligations'] if isinstance(r,dict) and 'obligations' in r else (r if isinstance(r,list) else [r])\nprint(json.dumps([(o['harness'],o.get('verdict'),str(o.get('message'))[:200]) for o in r]))" % (modname, fn)],
                           env=env, capture_output=True, text=True, cwd="/verif")
        import json
        try:
            obs = json.loads(r.stdout.strip().splitlines()[-1])
        except Exception:
            print("ERROR %s %s: %s" % (prop, expect, (r.stdout + r.stderr)[-400:]))
            continue
        hit = [o for o in obs if o[1] == "violation"]
        good = any(o[0] == expect for o in hit)
        ok += good
        print("%s %-4s expect %-28s -> %s" % ("DETECTED" if good else "MISSED  ", prop, expect, [(o[0], o[1]) for o in obs if o[1] != "discharged"] or "all discharged"))
        if not good and hit:
            print("      other violation:", hit[0])
    shutil.rmtree(scratch, ignore_errors=True)
    print("%d of %d detected" % (ok, len(muts)))


if __name__ == "__main__":
    main()
