"""Development self-test of engine S: apply small textual mutations to a scratch copy of /repo/src (never to /repo),
point the encoder at it (VERIF_REPO) and expect the named obligation to report a violation.
usage: python3-vt -m lib.selftest_mut            (native steps are skipped: the native build is of /repo)"""
import importlib
import os
import shutil
import subprocess
import sys

MUTS = [
    ("C10", "c10", "src/config/core.rs", "        self.tenant_index.remove_config(&key);\n        self.listener.notify(key.clone());", "        self.tenant_index.remove_config(&key);", "s10_1_long_poll"),
    ("C10", "c10", "src/config/config_subscribe.rs", "                if set.is_empty() {\n                    remove_keys.push(item.key.clone());\n                }", "", "s10_2_subscribers"),
    ("C09", "c09", "src/config/core.rs", "            if !v.tmp && v.md5.as_str() == md5 {\n                return Ok(ConfigResult::NULL);\n            }", "            if v.md5.as_str() == md5 || v.histories.len() > 1 {\n                return Ok(ConfigResult::NULL);\n            }", "s09_1_history"),
    ("C09", "c09", "src/config/core.rs", "        self.cache.remove(&key);\n        //self.config_db.del_config(&key).ok();\n        self.tenant_index.remove_config(&key);", "        self.cache.remove(&key);", "s09_1_history"),
    ("C16", "c16", "src/openapi/middle/auth_middle.rs", '"/nacos/v1/auth/login", "/nacos/v1/auth/users/login"', '"/nacos/v1/auth/login", "/nacos/v1/cs/configs", "/nacos/v1/auth/users/login"', "s16_1_routes_checked"),
    ("C16", "c16", "src/openapi/middle/auth_middle.rs", "            } else if token.is_empty() {\n                false", "            } else if token.is_empty() {\n                ignore_metrics", "s16_2_middleware_decision"),
    ("C16", "c16", "src/grpc/handler/mod.rs", "            || HEALTH_CHECK_REQUEST.eq(t)\n            || RAFT_APPEND_REQUEST.eq(t)", "            || HEALTH_CHECK_REQUEST.eq(t)\n            || CONFIG_QUERY_REQUEST.eq(t)\n            || RAFT_APPEND_REQUEST.eq(t)", "s16_3_grpc_dispatch"),
    ("C17", "c17", "src/console/middle/login_middle.rs", "let is_check_path = !IGNORE_CHECK_LOGIN.contains(&path) && !STATIC_FILE_PATH.is_match(path);", "let is_check_path = !IGNORE_CHECK_LOGIN.contains(&path) && !STATIC_FILE_PATH.is_match(path) && !path.ends_with(\"/list\");", "s17_1_api_routes_checked"),
    ("C17", "c17", "src/console/middle/login_middle.rs", "            if is_login {\n                if user_has_permission {", "            if is_login {\n                if user_has_permission || is_page {", "s17_5_middleware_decision"),
    ("C18", "c18", "src/common/model/privilege.rs", "    pub fn check_permission(&self, key: &T) -> bool {\n        self.at_whitelist(key) && !self.at_blacklist(key)", "    pub fn check_permission(&self, key: &T) -> bool {\n        self.at_whitelist(key) || !self.at_blacklist(key)", "s18_1_check_permission"),
    ("C18", "c18", "src/naming/service_index.rs", "            for (namespace_id, service_index) in &self.namespace_group {\n                if param.namespace_privilege.check_permission(namespace_id) {", "            for (namespace_id, service_index) in &self.namespace_group {\n                if true {", "s18_2_query_service_page"),
    ("C07", "c07", "src/raft/filestore/raftdata.rs", "            ClientRequest::NamespaceReq(req) => {\n                self.namespace.do_send(req);", "            ClientRequest::NamespaceReq(req) => {\n                self.table.do_send(Default::default()); let _ = req;", "s07_NamespaceReq"),
    ("C14", "c14", "src/naming/cluster/model.rs", "self.len < 2 || (hash_value % self.len) == self.index", "self.len < 2 || (hash_value % self.len) <= self.index", "s14_n2"),
    # obligations of rounds 9-11 (module entry points differ: "module:function")
    ("C18", "c18sites", "src/console/v2/config_api.rs", "pub async fn remove_config(\n    req: HttpRequest,\n    web::Json(param): web::Json<ConfigParams>,\n    appdata: Data<Arc<AppShareData>>,\n) -> impl Responder {\n    let config_key = param.to_key();\n    let namespace_privilege = user_namespace_privilege!(req);\n    if !namespace_privilege.check_permission(&config_key.tenant) {",
     "pub async fn remove_config(\n    req: HttpRequest,\n    web::Json(param): web::Json<ConfigParams>,\n    appdata: Data<Arc<AppShareData>>,\n) -> impl Responder {\n    let config_key = param.to_key();\n    let namespace_privilege = user_namespace_privilege!(req);\n    if false && !namespace_privilege.check_permission(&config_key.tenant) {", "s18_4_handler_call_sites"),
    ("C04", "c04snap", "src/raft/filestore/raftsnapshot.rs", "for item in &self.snapshots[0..split_index] {", "for item in &self.snapshots[0..=split_index] {", "s04_4_snapshot_catalogue_crash_points"),
    ("C11", "c11index", "src/naming/core.rs", "            if service.instance_size <= 0\n                && now - self.sys_config.service_time_out_millis", "            if service.healthy_instance_size <= 0\n                && now - self.sys_config.service_time_out_millis", "s11_3_service_index_and_cleanup"),
    ("C19", "c19seq", "src/sequence/core.rs", "self.seq_map.insert(key.clone(), step + 1);", "self.seq_map.insert(key.clone(), step);", "s19_6_sequence_table"),
    ("C01", "c01cfg", "src/config/model.rs", "value.histories.iter().last().map(|e| e.last_time)", "value.histories.first().map(|e| e.last_time)", "s01_5_config_snapshot_roundtrip"),
    ("C08", "c08stream", "src/raft/filestore/core.rs", "                    .create(true)\n                    .truncate(true)\n", "                    .create(true)\n", "s08_3_snapshot_stream_file"),
    ("C20", "c20big", "src/common/protobuf_utils.rs", "        message_buf[i - start] = message_buf[i];", "        message_buf[i - start] = message_buf[i - 1];", "s20_6_snapshot_reader_real_scale"),
    ("C03", "c03files", "src/raft/filestore/raftlog/mod.rs", "                last_log.log_range.is_close = false;\n", "", "s03_3_file_selection"),
    ("C02", "c03files:run_compaction", "src/raft/filestore/raftlog/mod.rs", "                item.log_range.split_off_index = split_off_index;\n", "", "s02_8_compaction_pointer_catalogue"),
    ("C05", "c05store", "src/raft/filestore/core.rs", "            voted_for: hs.voted_for.unwrap_or_default(),", "            voted_for: if hs.current_term > 0 { hs.voted_for.unwrap_or_default() } else { 0 },", "s05_4_filestore_hard_state"),
    ("C07", "c07cfg", "src/config/core.rs", "        if let Some(history_table_id) = param.history_table_id {\n            self.sequence.set_valid_last_id(history_table_id);\n        }\n", "", "s07_config_component_paths"),
]


def main():
    scratch = "/var/tmp/verif-work/selftest-repo"
    os.environ["VERIF_NO_NATIVE"] = "1"
    ok = 0
    for prop, mod, f, old, new, expect in MUTS:
        if os.path.exists(scratch):
            shutil.rmtree(scratch)
        shutil.copytree("/repo/src", os.path.join(scratch, "src"))
        p = os.path.join(scratch, f)
        s = open(p).read()
        if old not in s:
            print("SKIP (anchor text not found) %s %s" % (prop, f))
            continue
        open(p, "w").write(s.replace(old, new, 1))
        env = dict(os.environ, VERIF_REPO=scratch)
        modname, fn = (mod.split(":") + ["run"])[:2]
        r = subprocess.run([sys.executable, "-c", "import json,sys\nsys.path.insert(0,'/verif')\nimport rs2smt.%s as m\nr=m.%s('quick',0)\nr=r['obligations'] if isinstance(r,dict) and 'obligations' in r else (r if isinstance(r,list) else [r])\nprint(json.dumps([(o['harness'],o.get('verdict'),str(o.get('message'))[:200]) for o in r]))" % (modname, fn)],
                           env=env, capture_output=True, text=True, cwd="/verif")
        import json
        try:
            obs = json.loads(r.stdout.strip().splitlines()[-1])
        except Exception:
            print("ERROR %s %s: %s" % (prop, expect, (r.stdout + r.stderr)[-400:]))
            continue
        hit = [o for o in obs if o[1] == "violation"]
        good = any(o[0] == expect for o in hit)
        ok += good
        print("%s %-4s expect %-28s -> %s" % ("DETECTED" if good else "MISSED  ", prop, expect, [(o[0], o[1]) for o in obs if o[1] != "discharged"] or "all discharged"))
        if not good and hit:
            print("      other violation:", hit[0])
    shutil.rmtree(scratch, ignore_errors=True)
    print("%d of %d detected" % (ok, len(MUTS)))


if __name__ == "__main__":
    main()
