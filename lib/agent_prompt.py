"""prints the prompt for a breakage-seeding sub-agent: property text + worktree path only"""
import json, sys
pid, wt = sys.argv[1], sys.argv[2]
extra = sys.argv[3] if len(sys.argv) > 3 else ""
for l in open('/verif/properties.jsonl'):
    p = json.loads(l)
    if p['id'] == pid:
        break
print(f"""You are helping to evaluate a verification framework by mutation seeding. Work ONLY inside the git worktree {wt} (a scratch checkout of the Rust project nacos-group/r-nacos: a Rust re-implementation of the Nacos service registry / config center with its own Raft log/snapshot file store). Do not read or touch anything outside that directory (in particular not /repo and not /verif); ignore the few `#[cfg(any(kani, rnacos_verif))] #[path = "/verif/..."] mod ...;` hook lines in the sources: they are inert and you must leave them alone. There is no network; build with `cargo ... --offline` from inside the worktree (it has its own pre-warmed target/ directory; a test build of the lib takes 1-2 minutes; please use `cargo test --lib --offline <filter>` rather than building the whole workspace; keep parallel cargo invocations to one at a time).

Here is a semantic property of the system that should hold on the unmodified code:

id: {p['id']}
title: {p['title']}
statement: {p['statement']}
quantified over: {p['quantifier']['text']}
code anchors: files {p['anchors']['files']}; mechanisms {json.dumps(p['anchors']['mechanism'])}

Your task: produce ONE realistic, small source change (a plausible regression a maintainer could introduce: an off-by-one, a wrong comparison, a dropped/reordered step, a wrong field, a boundary mishandled, two sites that each look fine alone...) to the non-test code of this project that BREAKS this property, while
  (a) the project still compiles, and
  (b) the existing unit tests still pass: run `cargo test --lib --offline` in the worktree and make sure the tests that pass without your change still pass with it (the test `raft::filestore::raftlog::tests::write_index_equal_error_when_index_mismatch` fails even on the unmodified code: ignore it), and
  (c) the breakage needs something SPECIFIC to manifest - a particular input value or size, a particular interleaving, a crash or fault at a particular point, a multi-step sequence of operations, an unusual configuration - and would NOT be exposed at once by ordinary use or by the simplest smoke test. {extra}

Also write a demonstration: a Rust unit test (placed in a NEW file, e.g. `src/<some module dir>/seeded_demo.rs`, wired with a `#[cfg(test)] mod seeded_demo;` line in the parent module, or appended as a new `#[cfg(test)] mod` at the end of an existing file) that FAILS with your change applied and PASSES on the unmodified code. Verify both directions yourself (git stash / git checkout of just the mutated lines is fine). The demonstration may use crate-private items. Keep the demonstration separate from the mutation so that they can be applied independently:

Deliverables, all inside {wt}/seed_out/ :
  1. mutation.diff   - `git diff` of ONLY the breaking change to non-test code (must apply with `git apply` on a clean checkout of the same commit)
  2. demo.diff       - `git diff` of ONLY the demonstration test (applies on a clean checkout, independent of mutation.diff)
  3. notes.md        - which behaviour breaks, what exactly is needed for it to manifest, the exact cargo command that runs the demonstration, and its output with and without the mutation.
Finish by restoring the worktree to a clean state (`git checkout -- . && git clean -fd -e seed_out -e target`), leaving only seed_out/ (and target/). In your final answer summarise the mutation in 3-5 lines.""")
