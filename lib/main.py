"""/verif/check <ID> [--tier quick|thorough] [--replay <file>]

Verdict protocol (DESIGN.md section 0):
  exit 0  every obligation discharged, every reachability witness reachable (KNOWN-FINDING lines allowed)
  exit 1  VIOLATION property=<id> replay=<path>   (counterexample reproduced natively, not a listed finding)
  exit 2  INCONCLUSIVE property=<id> <why>        (time-out, OOM, unencodable source, unreproducible model)
"""
import argparse
import json
import os
import subprocess
import sys
import time

from . import kani_engine, native, registry, shadow

VERIF = shadow.VERIF
# seed runs (lib/run_seed.sh) write their evidence to a scratch directory: /verif/evidence describes the unchanged tree only
EVIDENCE = os.environ.get("VERIF_EVIDENCE_DIR") or os.path.join(VERIF, "evidence")
LOGS = os.path.join(shadow.CACHE, "logs")


def load_known():
    try:
        return json.load(open(os.path.join(VERIF, "known_findings.json")))
    except FileNotFoundError:
        return {"findings": [], "fixed": []}


def match_known(known, prop, harness, message, tags):
    for f in known.get("findings", []):
        if f.get("property") != prop:
            continue
        if f.get("harness") != harness:
            continue
        if f.get("message") and f["message"] != message:
            continue
        if not set(f.get("tags", [])) <= set(tags):
            continue
        return f
    return None


def repo_state():
    def g(*a):
        return subprocess.run(["git", "-C", shadow.REPO] + list(a), capture_output=True, text=True).stdout.strip()
    return {"head": g("rev-parse", "HEAD"), "dirty_files": [l[3:] for l in g("status", "--porcelain").splitlines()][:20]}


def blob_hashes(files):
    out = {}
    for f in files:
        p = os.path.join(shadow.REPO, f)
        if os.path.exists(p):
            out[f] = subprocess.run(["git", "hash-object", p], capture_output=True, text=True).stdout.strip()
        else:
            out[f] = "missing"
    return out


def main(argv=None):
    ap = argparse.ArgumentParser()
    ap.add_argument("prop")
    ap.add_argument("--tier", default=os.environ.get("VERIF_TIER", "quick"), choices=["quick", "thorough"])
    ap.add_argument("--replay")
    ap.add_argument("--only", help="comma separated harness short names (development)")
    ap.add_argument("--jobs", type=int, default=int(os.environ.get("VERIF_JOBS", "12")))
    a = ap.parse_args(argv)
    prop = a.prop.upper()
    seed = int(os.environ.get("VERIF_SEED", "0") or 0)
    if prop not in registry.PROPS:
        print("unknown or not-applicable property %s" % prop)
        return 2
    spec = registry.PROPS[prop]
    os.makedirs(LOGS, exist_ok=True)
    os.makedirs(EVIDENCE, exist_ok=True)

    if a.replay:
        return do_replay(prop, a.replay)

    t0 = time.time()
    lines = []
    violations = 0
    inconclusive = []
    known_hits = []
    obligations = []
    known = load_known()

    # ---------------- Engine K ----------------
    hs = [h for h in spec.get("kani", []) if h.in_tier(a.tier)]
    if a.only:
        only = set(a.only.split(","))
        hs = [h for h in hs if h.name in only]
    kinfo = {}
    if hs:
        res = {}
        groups = {}
        for h in hs:
            groups.setdefault(h.group, []).append(h)
        for gname, ghs in groups.items():
            tmax = max(h.timeout(a.tier) for h in ghs)
            uw = {}
            for h in ghs:
                for k, v in h.unwindset.items():
                    uw[k] = max(v, uw.get(k, 0))
            gres, ginfo = kani_engine.run([h.fq() for h in ghs], tmax, jobs=a.jobs, unwindset=uw,
                                          log_path=os.path.join(LOGS, "%s-kani-%s.log" % (prop, gname)))
            res.update(gres)
            if not kinfo:
                kinfo = ginfo
            else:
                kinfo["cmd"] += " ;; " + ginfo.get("cmd", "")
                kinfo["kani_build_s"] = (kinfo.get("kani_build_s") or 0) + (ginfo.get("kani_build_s") or 0)
            if ginfo.get("compile_failed"):
                kinfo["compile_failed"] = True
                kinfo["compile_errors"] = ginfo.get("compile_errors", "")
        if kinfo.get("compile_failed"):
            why = "harness crate does not compile against the current tree (the encoded functions changed shape): " + \
                kinfo.get("compile_errors", "")[:1500].replace("\n", " | ")
            inconclusive.append(why)
            res = {}
        native_exe = None
        for h in hs:
            r = res.get(h.fq())
            if r is None:
                continue
            ob = {"engine": "kani", "harness": h.name, "module": h.module, "bound": h.bound, "encodes": h.functions,
                  "result": r.to_json()}
            obligations.append(ob)
            if r.status == "success":
                bad = [c for c, st in r.covers.items() if st != "SATISFIED" and c not in h.optional_covers]
                if bad:
                    inconclusive.append("harness %s: reachability witness not reachable: %s" % (h.name, "; ".join(bad)))
                    ob["verdict"] = "vacuous"
                else:
                    ob["verdict"] = "discharged"
                continue
            if r.status in ("timeout", "error", "missing"):
                inconclusive.append("harness %s: %s (%s)" % (h.name, r.status, r.raw_tail[-300:].replace("\n", " ")))
                ob["verdict"] = r.status
                continue
            # failure: is it only the unwinding bound?
            nonunwind = [f for f in r.failed if ".unwind." not in f[0]]
            if not nonunwind:
                inconclusive.append("harness %s: unwinding assertion failed (bound too small for the current code): %s"
                                    % (h.name, r.failed[0][2]))
                ob["verdict"] = "unwind"
                continue
            # counterexample: extract concrete values, replay natively
            pres, pinfo = kani_engine.run([h.fq()], h.timeout(a.tier) * 2, jobs=1, playback=True, unwindset=h.unwindset,
                                          log_path=os.path.join(LOGS, "%s-%s-playback.log" % (prop, h.name)))
            vals = kani_engine.parse_playback(pinfo.get("playback_out", ""), nonunwind[0][1])
            if vals is None:
                # Kani printed tests for the satisfied covers only: second attempt with the covers compiled out
                pres, pinfo = kani_engine.run([h.fq()], h.timeout(a.tier) * 2, jobs=1, playback=True, unwindset=h.unwindset,
                                              env_extra={"VERIF_NOCOVER": "1"},
                                              log_path=os.path.join(LOGS, "%s-%s-playback2.log" % (prop, h.name)))
                vals = kani_engine.parse_playback(pinfo.get("playback_out", ""), nonunwind[0][1])
            if vals is None:
                inconclusive.append("harness %s: failed (%s) but no concrete values could be extracted"
                                    % (h.name, nonunwind[0][1]))
                ob["verdict"] = "no-playback"
                continue
            path = native.write_replay(prop, h.module, h.name, vals,
                                       {"kani_failed_checks": [list(f) for f in nonunwind[:5]]})
            if native_exe is None:
                native_exe, berr = native.build(os.path.join(LOGS, "%s-native-build.log" % prop))
            if native_exe is None:
                inconclusive.append("native replay build failed: " + berr[-600:].replace("\n", " | "))
                ob["verdict"] = "no-native-build"
                continue
            rr = native.run_replay(native_exe, path)
            ob["replay"] = {"path": path, "outcome": rr["outcome"], "message": rr["message"], "tags": rr["tags"]}
            if rr["outcome"] == "reproduced":
                kf = match_known(known, prop, h.name, rr["message"], rr["tags"])
                if kf:
                    known_hits.append(kf)
                    lines.append("KNOWN-FINDING: property=%s %s" % (prop, kf.get("what", rr["message"])))
                    ob["verdict"] = "known-finding"
                    # look for a different violation behind the known one
                    if kf.get("excl_harness"):
                        ob["excl_harness"] = kf["excl_harness"]
                else:
                    violations += 1
                    lines.append("VIOLATION property=%s replay=%s" % (prop, path))
                    lines.append("  harness=%s failing-assertion=%r native-replay: %s" % (h.name, nonunwind[0][1], rr["message"]))
                    ob["verdict"] = "violation"
            else:
                inconclusive.append("harness %s: solver counterexample (%s) did not reproduce natively (%s: %s)"
                                    % (h.name, nonunwind[0][1], rr["outcome"], rr["message"]))
                ob["verdict"] = "unreproduced"

    # ---------------- Engine S ----------------
    sinfo = None
    if spec.get("smt"):
        sres = spec["smt"](a.tier, seed)
        sinfo = sres.get("info", {})
        for ob in sres["obligations"]:
            obligations.append(ob)
            v = ob.get("verdict")
            if v == "discharged":
                continue
            if v == "violation":
                kf = match_known(known, prop, ob.get("harness", ""), ob.get("message", ""), ob.get("tags", []))
                if kf:
                    known_hits.append(kf)
                    lines.append("KNOWN-FINDING: property=%s %s" % (prop, kf.get("what", ob.get("message", ""))))
                    ob["verdict"] = "known-finding"
                else:
                    violations += 1
                    lines.append("VIOLATION property=%s replay=%s" % (prop, ob.get("replay_path", "")))
                    lines.append("  obligation=%s %s" % (ob.get("harness"), ob.get("message", "")))
            else:
                inconclusive.append("obligation %s: %s" % (ob.get("harness"), ob.get("message", v)))

    wall = time.time() - t0
    for w in inconclusive:
        lines.append("INCONCLUSIVE property=%s %s" % (prop, w))
    write_evidence(prop, spec, a.tier, seed, obligations, violations, inconclusive, known_hits, kinfo, sinfo, wall)
    for l in lines:
        print(l)
    n_ok = sum(1 for o in obligations if o.get("verdict") == "discharged")
    print("%s tier=%s obligations=%d discharged=%d known-findings=%d violations=%d inconclusive=%d wall=%.0fs"
          % (prop, a.tier, len(obligations), n_ok, len(known_hits), violations, len(inconclusive), wall))
    if violations:
        return 1
    if inconclusive:
        return 2
    return 0


def write_evidence(prop, spec, tier, seed, obligations, violations, inconclusive, known_hits, kinfo, sinfo, wall):
    files = sorted({f for o in obligations for f in o.get("encodes_files", [])} | set(spec.get("files", [])))
    cbmc_checks = sum(o.get("result", {}).get("cbmc_checks", 0) for o in obligations)
    smt_queries = sum(o.get("queries", 0) for o in obligations)
    reach = sum(o.get("result", {}).get("reachable_assertions_in_repo_or_harness", 0) for o in obligations)
    covers_hit = sum(1 for o in obligations for c, st in o.get("result", {}).get("covers", {}).items() if st == "SATISFIED")
    discharged = sum(1 for o in obligations if o.get("verdict") == "discharged")
    solver_time = sum((o.get("result", {}).get("cbmc_time_s") or 0) for o in obligations) + sum(o.get("solver_s", 0) for o in obligations)
    samples = []
    for o in obligations[:40]:
        s = {"obligation": o.get("harness"), "engine": o.get("engine"), "bound": o.get("bound"), "verdict": o.get("verdict"),
             "encodes": o.get("encodes")}
        if o.get("result"):
            s["cbmc_checks"] = o["result"]["cbmc_checks"]
            s["cbmc_time_s"] = o["result"]["cbmc_time_s"]
            s["covers"] = o["result"]["covers"]
        if o.get("sample"):
            s["sample"] = o["sample"]
        if o.get("replay"):
            s["replay"] = o["replay"]
        samples.append(s)
    level = spec["level"]
    cov = {
        "evaluations": max(1, cbmc_checks + smt_queries),
        "distinct_nontrivial": reach + covers_hit + sum(o.get("distinct", 0) for o in obligations),
        "rule": "evaluations = solver-decided checks of this run: CBMC property checks (assertions, bounds, overflow, unwinding "
                "assertions) over the goto program compiled from /repo's working tree, plus SMT queries of engine S. "
                "distinct_nontrivial = distinct reachable (status SUCCESS, not UNREACHABLE) assertion checks located in "
                "/repo/src or /verif/harness + reachability witnesses (kani::cover / sat witnesses) the solver showed "
                "satisfiable + distinct SMT obligations over extracted artefacts; each is one obligation quantified over "
                "all inputs inside the stated bound, not one concrete run.",
        "samples": samples,
        "obligations": len(obligations),
        "discharged": discharged,
        "checker_cmd": (kinfo or {}).get("cmd", "") or (sinfo or {}).get("cmd", ""),
        "trusted_base": spec.get("trusted_base", registry.DEFAULT_TRUSTED),
        "solver_time_s": round(solver_time, 1),
        "kani_build_s": (kinfo or {}).get("kani_build_s"),
        "bounds": [{"obligation": o.get("harness"), "bound": o.get("bound")} for o in obligations],
        "functions_encoded": sorted({f for o in obligations for f in (o.get("encodes") or [])}),
        "repo_functions_reached_by_cbmc_checks": sorted({f for o in obligations for f in o.get("result", {}).get("repo_functions_with_checks", [])})[:120],
        "repo": repo_state(),
        "source_blobs": blob_hashes(files),
        "inconclusive": inconclusive,
        "known_findings_hit": [k.get("key") for k in known_hits],
        "outside_the_claim": spec.get("outside", ""),
        "exhaustive": False,
        "explanation": spec.get("explanation", ""),
    }
    if sinfo:
        cov["engine_s"] = sinfo
    if level == "translation_validation":
        cov["programs"] = spec.get("programs", 0)
        cov["disagreements_checked"] = smt_queries
    ev = {
        "property_id": prop, "tier": tier, "seed": seed, "level": level, "coverage": cov,
        "assumptions": spec.get("assumptions", []), "wall_s": round(wall, 1), "violations": violations,
    }
    with open(os.path.join(EVIDENCE, "%s.json" % prop), "w") as f:
        json.dump(ev, f, indent=1)


def do_replay(prop, path):
    body = json.load(open(path))
    if body.get("engine") == "smt":
        spec = registry.PROPS[prop]
        return spec["smt_replay"](body)
    exe, berr = native.build(os.path.join(LOGS, "%s-native-build.log" % prop))
    if exe is None:
        print("INCONCLUSIVE property=%s native build failed" % prop)
        print(berr[-2000:])
        return 2
    rr = native.run_replay(exe, path)
    print("replay outcome=%s message=%s tags=%s" % (rr["outcome"], rr["message"], rr["tags"]))
    if rr["outcome"] == "reproduced":
        print("VIOLATION property=%s replay=%s" % (prop, path))
        return 1
    if rr["outcome"] == "passed":
        return 0
    print(rr["output"])
    return 2


if __name__ == "__main__":
    sys.exit(main())
