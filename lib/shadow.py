"""Shadow cargo packages: /repo/Cargo.toml's package/dependencies copied verbatim, lib path pointing at
/repo/src/lib.rs, so that cargo-kani / cargo test compile /repo's *current working tree* without
touching /repo/Cargo.toml or /repo/target."""
import os
import re
import shutil
import subprocess
import sys

REPO = os.environ.get("VERIF_REPO", "/repo")
VERIF = os.path.dirname(os.path.dirname(os.path.abspath(__file__)))
CACHE = os.path.join(VERIF, ".cache")
WORK = os.environ.get("VERIF_WORK", "/var/tmp/verif-work")
TOKIO_SHIM = os.path.join(CACHE, "tokio-shim")

BUILD_RS = r'''
fn main() {
    println!("cargo:rerun-if-env-changed=VERIF_CFGS");
    println!("cargo:rustc-check-cfg=cfg(rnacos_verif)");
    println!("cargo:rustc-check-cfg=cfg(kani)");
    if let Ok(v) = std::env::var("VERIF_CFGS") {
        for c in v.split(',') {
            let c = c.trim();
            if !c.is_empty() {
                println!("cargo:rustc-check-cfg=cfg({})", c);
                println!("cargo:rustc-cfg={}", c);
            }
        }
    }
}
'''


def _strip_sections(text, names):
    """remove whole TOML tables whose header is in names (e.g. '[workspace]', '[[bin]]')"""
    out = []
    skip = False
    for line in text.splitlines():
        s = line.strip()
        if s.startswith("[") and not s.startswith("[\""):
            hdr = s.split("#")[0].strip()
            skip = hdr in names
        if not skip:
            out.append(line)
    return "\n".join(out) + "\n"


def make_shadow(kind):
    """kind: 'kani' (tokio patched with simfs shim) or 'native' (plain deps, cfg rnacos_verif)."""
    d = os.path.join(WORK, "shadow-" + kind)
    os.makedirs(d, exist_ok=True)
    src = open(os.path.join(REPO, "Cargo.toml")).read()
    src = _strip_sections(src, {"[workspace]", "[[bin]]", "[lints.clippy]", "[profile.release]"})
    # readme etc. are relative paths in [package]; drop the ones cargo would try to open
    src = re.sub(r'(?m)^readme\s*=.*\n', '', src)
    src = re.sub(r'(?m)^exclude\s*=\s*\[(?:.|\n)*?\]\n', '', src)
    src = src.replace("[package]\n", "[package]\nbuild = \"build.rs\"\nautobins = false\nautoexamples = false\nautotests = false\nautobenches = false\n", 1)
    src += "\n[lib]\nname = \"rnacos\"\npath = \"%s/src/lib.rs\"\n\n[workspace]\n" % REPO
    if kind == "kani":
        src += "\n[patch.crates-io]\ntokio = { path = \"%s\" }\n" % TOKIO_SHIM
        src += "\n[lints.rust]\nunexpected_cfgs = { level = \"allow\" }\n"
    else:
        src += "\n[lints.rust]\nunexpected_cfgs = { level = \"allow\" }\n"
    _write_if_changed(os.path.join(d, "Cargo.toml"), src)
    _write_if_changed(os.path.join(d, "build.rs"), BUILD_RS)
    lock = os.path.join(d, "Cargo.lock")
    if not os.path.exists(lock):
        shutil.copy(os.path.join(REPO, "Cargo.lock"), lock)
    cfgdir = os.path.join(d, ".cargo")
    os.makedirs(cfgdir, exist_ok=True)
    _write_if_changed(os.path.join(cfgdir, "config.toml"), "[net]\noffline = true\n")
    return d


def _write_if_changed(path, content):
    try:
        if open(path).read() == content:
            return
    except FileNotFoundError:
        pass
    with open(path, "w") as f:
        f.write(content)


def ensure_tokio_shim():
    """vendored tokio 1.53.1 + cfg(kani)-only in-memory fs (3 files differ)."""
    stamp = os.path.join(TOKIO_SHIM, ".verif-stamp")
    want = _hash_files([os.path.join(VERIF, "shim", "sim_file.rs"), os.path.join(VERIF, "shim", "tokio_fs.patch")])
    try:
        if open(stamp).read() == want:
            return
    except FileNotFoundError:
        pass
    import glob
    cands = glob.glob(os.path.expanduser("~/.cargo/registry/src/*/tokio-1.53.1"))
    if not cands:
        raise SystemExit("tokio-1.53.1 not in cargo registry cache")
    if os.path.exists(TOKIO_SHIM):
        shutil.rmtree(TOKIO_SHIM)
    os.makedirs(CACHE, exist_ok=True)
    shutil.copytree(cands[0], TOKIO_SHIM)
    for junk in (".cargo-ok", ".cargo_vcs_info.json", "Cargo.toml.orig"):
        p = os.path.join(TOKIO_SHIM, junk)
        if os.path.exists(p):
            os.remove(p)
    subprocess.run(["patch", "-p0", "-s", "-i", os.path.join(VERIF, "shim", "tokio_fs.patch")], cwd=TOKIO_SHIM, check=True)
    shutil.copy(os.path.join(VERIF, "shim", "sim_file.rs"), os.path.join(TOKIO_SHIM, "src", "fs", "sim_file.rs"))
    with open(stamp, "w") as f:
        f.write(want)


def _hash_files(paths):
    import hashlib
    h = hashlib.sha256()
    for p in paths:
        h.update(open(p, "rb").read())
    return h.hexdigest()


if __name__ == "__main__":
    ensure_tokio_shim()
    print(make_shadow(sys.argv[1] if len(sys.argv) > 1 else "kani"))
