"""rewrites the seed table of DESIGN.md (between the SEED-TABLE markers) from seeded/*/meta.json"""
import glob, json, re
p = '/verif/DESIGN.md'
s = open(p).read()
rows = ["| seed | property | what the change needs to manifest | caught by (official run) |", "|---|---|---|---|"]
for d in sorted(glob.glob('/verif/seeded/*/meta.json')):
    m = json.load(open(d))
    det = m.get('detected_by') or 'not yet run'
    rows.append("| %s | %s | %s | %s |" % (m['seed'], m['property'], m['needs_to_manifest'][:300].replace('|', '/'), det[:460].replace('|', '/')))
table = "<!-- SEED-TABLE-BEGIN -->\n" + "\n".join(rows) + "\n<!-- SEED-TABLE-END -->"
if "<!-- SEED-TABLE-BEGIN -->" in s:
    s = re.sub(r"<!-- SEED-TABLE-BEGIN -->.*?<!-- SEED-TABLE-END -->", lambda _m: table, s, flags=re.S)
else:
    # first use: replace the old static table (from its header row to the blank line behind it)
    i = s.index("| seed | property | what the change needs to manifest |")
    j = s.index("\n\n", i)
    s = s[:i] + table + s[j:]
open(p, 'w').write(s)
print("seed table: %d seeds" % (len(rows) - 2))
