import json,sys
sid,field,val=sys.argv[1],sys.argv[2],sys.argv[3]
p='/verif/seeded/%s/meta.json'%sid
m=json.load(open(p))
try:
    val=json.loads(val)
except ValueError:
    pass
m[field]=val
json.dump(m,open(p,'w'),indent=1)
