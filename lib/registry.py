"""Which obligations decide which property. Harness code: /verif/harness/*.rs (compiled into /repo's
crate by the cfg(kani)/cfg(rnacos_verif) hooks); SMT obligations: /verif/rs2smt."""

DEFAULT_TRUSTED = [
    "Kani 0.68.0 MIR->goto translation and CBMC 6.11.0 (cadical) as the deciding solver",
    "rustc (Kani's pinned nightly) front end; harness code under /verif/harness",
    "stubs listed in assumptions",
]

ROOT = "verif_harness::%s::proofs::%s"
PRIV = {
    # module name -> fully qualified path of the in-module hook (private items reachable)
}


class H:
    def __init__(self, module, name, bound, functions, tier="quick", t_quick=300, t_thorough=None,
                 optional_covers=(), unwindset=None, group="main"):
        self.module = module
        self.name = name
        self.bound = bound
        self.functions = functions
        self.tier = tier
        self.t_quick = t_quick
        self.t_thorough = t_thorough or max(t_quick * 4, 1200)
        self.optional_covers = set(optional_covers)
        # per-loop unwinding bounds {"<substring of function name>.<loop number>": bound}; the global bound of the
        # harness (#[kani::unwind]) applies to every other loop; unwinding assertions stay on for all of them
        self.unwindset = unwindset or {}
        # harnesses of one group share one cargo-kani invocation (and therefore one --unwindset)
        self.group = group

    def in_tier(self, tier):
        return self.tier == "quick" or tier == "thorough"

    def timeout(self, tier):
        return self.t_quick if tier == "quick" else self.t_thorough

    def fq(self):
        if self.module in PRIV:
            return PRIV[self.module] % self.name
        return ROOT % (self.module, self.name)


PU = "src/common/protobuf_utils.rs"

PROPS = {}

# buffer of 8 bytes, reads of 4, streams of 8: the capacity-expansion loop never iterates; bound 1 + its unwinding
# assertion proves that instead of unrolling 10 symbolic-size reallocations (measured: >14 GB vs 3 GB / 2 min)
NOGROW = {"MessageBufReader::append_next_buf.0": 1}
GROW = {"MessageBufReader::append_next_buf.0": 3}

PROPS["C20"] = {
    "level": "model_checking",
    "files": [PU],
    "kani": [
        H("c20", "k20_1a_size", "every u64 (full width); unwind 11 >= 10 seven-bit groups + 1",
          ["common::protobuf_utils::write_varint64", "common::protobuf_utils::inner_sizeof_varint"], t_quick=120),
        H("c20", "k20_1b_roundtrip", "every u64; unwind 11",
          ["common::protobuf_utils::write_varint64", "common::protobuf_utils::read_varint64"], t_quick=300),
        H("c20", "k20_1c_offset", "every u64, offset 3 in a 16-byte window padded with 0xff; unwind 11",
          ["common::protobuf_utils::write_varint64", "common::protobuf_utils::read_varint64_offset"], t_quick=300),
        H("c20", "k20_2_reader_window", "every content of a 10-byte window (the size read_len passes)",
          ["common::protobuf_utils::read_varint64"], t_quick=300),
        H("c20", "k20_5_compaction", "every content of an 8-byte buffer, every read position 0..=8, every next chunk of 0..=4 bytes that fits without growth",
          ["MessageBufReader::{new_with_data,append_next_buf}", "move_data_to_start", "copy_data"], t_quick=600, unwindset=NOGROW, group="nogrow"),
        H("c20", "k20_3_drain_n8_c4_b8", "every well-formed 8-byte stream (record boundaries symbolic) read in 4-byte chunks into an 8-byte buffer; drain protocol",
          ["MessageBufReader::{new_with_data,append_next_buf,next_message_vec,is_empty}", "move_data_to_start", "copy_data"], t_quick=900,
          unwindset=NOGROW, group="nogrow", optional_covers=[]),
        H("c20", "k20_4_logscan_n8_c4_b8", "same streams; log-scan protocol (is_empty() consulted after each drain)",
          ["MessageBufReader::{new_with_data,append_next_buf,next_message_vec,is_empty}"], t_quick=900, unwindset=NOGROW, group="nogrow"),
        H("c20", "k20_3_drain_n8_c4_b4", "8-byte streams, 4-byte chunks, 4-byte buffer (buffer growth and the start>=len edge exercised)",
          ["MessageBufReader::*", "capacity_expansion"], tier="thorough", t_quick=1800, t_thorough=3600, unwindset=GROW, group="grow"),
        H("c20", "k20_4_logscan_n8_c4_b4", "8-byte streams, 4-byte chunks, 4-byte buffer; log-scan protocol",
          ["MessageBufReader::*", "capacity_expansion"], tier="thorough", t_quick=1800, t_thorough=3600, unwindset=GROW, group="grow"),
        # (9, 3, 4) configurations: measured beyond the 14 GB memory watchdog in this sandbox (CBMC killed): kept in the harness source, not registered
        # (9, 3, 4) configurations: measured beyond the 14 GB memory watchdog in this sandbox (CBMC killed): kept in the harness source, not registered
    ],
    "assumptions": [
        "std::backtrace::Backtrace::capture stubbed to Backtrace::disabled() (anyhow error construction otherwise walks getenv)",
        "streams are store-written: canonical length prefixes; records < 128 bytes (stream length bound), at most one truncated tail",
    ],
    "outside": "records larger than 2100 bytes and streams of more than 3 large records; the log scan's use of the reader at the 1024-byte scale (decided for buffers of 4 and 8 bytes through the public small-buffer constructor)",
}

def _c14(tier, seed):
    from rs2smt import c14
    return c14.run(tier, seed)


PROPS["C14"] = {
    "level": "model_checking",
    "files": ["src/naming/cluster/node_manage.rs", "src/naming/cluster/model.rs", "src/naming/core.rs", "src/naming/service.rs"],
    "smt": _c14,
    "trusted_base": ["rs2smt: /verif/rs2smt/rsparse.py (parser for the Rust subset) and rseval.py (symbolic evaluator), validated on every run "
                     "against the native build of the same functions (s14_translator_validation)", "z3 5.1.0"],
    "assumptions": [
        "Addr<InnerNodeManage>::send(msg).await is modelled as the result of the real Handler<NodeManageRequest>::handle arm for msg on the actor's state (mailbox errors outside)",
        "DefaultHasher::finish() is an arbitrary u64 (all 2^64 values); Hash::hash is a no-op",
        "all live nodes share one view (same membership and liveness); the local node is alive in its own view",
        "integer casts between usize/u64 are identities (64-bit target)",
        "s14_5: NamingActor::refresh_process_range, ProcessRange::is_range, Service::do_refresh_process_range from source on three services hashing to 0, 1, 2 (get_hash_value is a table), two HTTP instances synced from "
        "node 2 (health symbolic) and one gRPC instance each, every range (index < len <= 3): in-range services' HTTP instances become local and sit under one of this node's timers, nothing else changes",
    ],
    "outside": "views that differ between nodes; cluster sizes above 5 (3 in the quick tier); the sync of instances to the other nodes after a range change",
    "explanation": "bounded symbolic execution of the real source (concrete cluster size, symbolic liveness and hash) + SMT",
}


def _c16(tier, seed):
    from rs2smt import c16
    return c16.run(tier, seed)


def _c17(tier, seed):
    from rs2smt import c17
    return c17.run(tier, seed)


_S_TRUSTED = ["rs2smt: /verif/rs2smt/rsparse.py (parser for the Rust subset), rseval.py (symbolic evaluator, lenient mode for decision skeletons), "
              "routes.py (actix builder calls modelled as data constructors), validated on every run against the native build (translator validation)",
              "z3 5.1.0 (strings + regular expressions)"]

PROPS["C16"] = {
    "level": "other",
    "files": ["src/openapi/middle/auth_middle.rs", "src/web_config.rs", "src/openapi/mod.rs", "src/grpc/handler/mod.rs"],
    "smt": _c16,
    "trusted_base": _S_TRUSTED,
    "assumptions": [
        "middleware wiring as in src/main.rs: the API port wraps app_config(..) in ApiCheckAuth (not re-derived)",
        "actix route matching: scope prefix ++ resource pattern, {x} = one non-empty segment, {x:re} = re, case sensitive, no path normalisation",
        "s16_1: is_check_path is evaluated from the middleware's own let-initialisers (every let in front of it); request.method() is a symbolic value over the nine standard methods + extension methods; "
        "one query per registered (route pattern, method) pair; a counterexample is replayed end to end on the real App of the API port (harness/cweb_e2e.rs)",
        "environment of the middleware: path, header/query/body token and session lookup are arbitrary (valid_token is an uninterpreted predicate on the token string); "
        "calls without a model (metrics, response building) are opaque and assumed not to forward the request",
        "gRPC: PayloadUtils::get_payload_type returns an arbitrary type string; RequestMeta fields arbitrary; cluster-internal types = constants named RAFT_* and NAMING_ROUTE_REQUEST",
        "s16_7: DirectCacheManager's Handler<CacheManagerRaftReq> (Set plain / nx / xx, GetSet, Get, Exists, Remove, Expire) and clear_time_out from source over every history of 3 (thorough: 4) steps on two "
        "token keys; now_second_i32 is a model variable per step (non-decreasing, < 2^30), login time <= apply clock, lifetimes < 2^30; comparisons signed (the code's integers are i32 / i64); "
        "inner_mem_cache::TimeoutSet modelled as a list of (time, key); soundness oracle only (nothing is served past login time + lifetime); one-clock histories are replayed / validated on a real actor",
    ],
    "outside": "the limiter entries and Incr / Decr of the cache table, its snapshot records (they are written without their deadline: entries come back expired - fail-safe for C16), actix internals, how cluster_token_is_valid is computed",
    "explanation": "bounded symbolic evaluation of the real source text (routes, regexes, ignore lists, middleware and dispatcher bodies) into SMT "
                   "(strings/regular languages); every obligation is a language-inclusion or implication query decided by z3",
}
PROPS["C17"] = {
    "level": "other",
    "files": ["src/user/permission.rs", "src/console/middle/login_middle.rs", "src/console/api.rs", "src/web_config.rs"],
    "smt": _c17,
    "trusted_base": _S_TRUSTED,
    "assumptions": [
        "middleware wiring as in src/main.rs: the console port wraps console_config in CheckLogin",
        "API calls = registered routes under /rnacos/api/; login endpoints = the property's list (login, captcha, login config, OAuth2 callback, both API versions)",
        "a visitor's permitted non-GET routes are session handling and changing the own password (login/logout/oauth2 login/reset_password); everything else non-GET counts as a data change",
        "session lookup is an uninterpreted predicate on the token string; role permission inside the middleware is the result of UserRole::match_url_by_roles (analysed separately)",
    ],
    "outside": "session storage and expiry; per-handler checks inside the handlers",
    "explanation": "bounded symbolic evaluation of the real source text (route table, role tables, middleware body) into SMT; queries decided by z3",
}


def _c07(tier, seed):
    from rs2smt import c07
    return c07.run(tier, seed)


PROPS["C07"] = {
    "level": "translation_validation",
    "programs": 3,
    "files": ["src/raft/filestore/raftdata.rs", "src/raft/store/mod.rs", "src/config/core.rs", "src/common/sequence_utils.rs", "src/mcp/core.rs", "src/mcp/model/mcp.rs", "src/mcp/model/tools.rs", "src/mcp/utils.rs"],
    "smt": _c07,
    "trusted_base": ["rs2smt parser + lenient symbolic evaluator (/verif/rs2smt)", "z3 5.1.0 (equality of first-order terms with uninterpreted symbols)"],
    "assumptions": [
        "payload fields of a request are uninterpreted; helper calls with identical source text (String::from_utf8_lossy, ConfigValueDO::from_bytes, into) are the same uninterpreted function in all three programs",
        "Addr::send / Addr::do_send are both 'emit message to that actor'; the difference in mode (awaiting the reply vs. fire-and-forget) is reported, not compared",
        "what the receiving actors do with equal messages is outside (equal messages to the same single-threaded actor in the same order give equal state) - except the config actor: "
        "s07_config_component_paths runs two ConfigActor replicas from source, the leader taking history id / table id from its own SimpleSequence::next_state (batch size 2), both applying the committed "
        "ConfigRaftCmd; GET, history, index and the history-id sequence point agree after every one of 3 (thorough: 4) requests",
        "s07_mcp_component_paths: two McpManager replicas from source (core.rs, model/mcp.rs, model/tools.rs, utils.rs), one applying the log one by one, one restarting behind a symbolic prefix by log replay or from the "
        "component's snapshot (records carry the McpServerDo / McpToolSpecDo objects; generated code and serde_json outside) and then LoadCompleted; histories of 3 (thorough: 4) requests over AddServer / UpdateServer / "
        "PublishCurrentServer / RemoveServer / UpdateToolSpec / RemoveToolSpec; callers' guarantees assumed: no two servers hold one unique key, tool-spec versions are fresh, servers name existing versions",
    ],
    "outside": "ordering between different actors' mailboxes on the follower path; the handlers of the table, namespace, sequence, cache and naming components (one implementation each, no rebuild step at start-up); MCP servers that name tool-spec versions which do not exist",
    "explanation": "three dispatch programs compared per request variant as first-order terms",
}


def _c18(tier, seed):
    from rs2smt import c18
    return c18.run(tier, seed)


PROPS["C18"] = {
    "level": "other",
    "files": ["src/common/model/privilege.rs", "src/namespace/mod.rs", "src/config/config_index.rs", "src/naming/service_index.rs", "src/user/mod.rs", "src/user/model.rs",
              "src/console/config_api.rs", "src/console/naming_api.rs", "src/console/api.rs", "src/console/v2/config_api.rs", "src/console/v2/naming_api.rs", "src/console/v2/namespace_api.rs",
              "src/console/v2/mcp_server_api.rs", "src/console/v2/mcp_tool_spec_api.rs"],
    "smt": _c18,
    "trusted_base": _S_TRUSTED,
    "assumptions": [
        "white/blacklists range over subsets of {'', public, a, b}; the namespace asked about is an arbitrary string",
        "the per-namespace sub-index of a listing returns keys of its own namespace (its own filters are outside)",
        "s18_4 (call sites): every fn of src/console/*.rs and src/console/v2/*.rs whose request parameters name a namespace (namespace, namespace_id, namespaceId, tenant) is evaluated from source in "
        "lenient mode; `user_namespace_privilege!` yields an object whose check_* answers are fresh Booleans; calls through the shared application data are data accesses; a data access built from a "
        "namespace source needs an earlier check on a term built from the same source that the path took as true, or carries the privilege object (listing delegated to the index filters). Weaker than "
        "equality of the checked and the used term. Handlers addressed by id only (MCP get / update / remove / publish by id) name no namespace and are outside. Nine MCP handlers are known findings (S18-b)",
        "s18_4: a request parameter web::Json<Vec<T>> is a list with one element whose fields are symbolic (the handlers treat the elements alike; lists of length 1)",
        "s18_4 also evaluates the handler functions of other modules that console routes point to (eight OpenAPI handlers of the v1 console API; struct definitions are scoped per handler file) and applies the rule "
        "'composed-key': config_route.set_config / del_config with a key built from request strings needs ConfigKey::is_valid taken as Ok; s18_5_composed_key: build_key, From<&str> for ConfigKey, is_valid from source, dataId / group / tenant "
        "as sequences of separator-free pieces (0..=2 separators inside each, symbolic), param_utils::is_valid evaluated on the separator and on plain names; four mounted OpenAPI handlers are known findings (S18-c)",
        "s18_3: UserManager::{add_user, update_user}, UserDo::build_namespace_privilege, From<UserDo> for UserDto, PrivilegeGroup::{all, new, get_flags} from source; the raft table route is a one-table store, "
        "UserDo::to_bytes / from_bytes a copy (prost codec outside); lists absent / empty / [a] / [a, b] (blacklist: absent / empty / [b]), flags absent or arbitrary; quick tier compares through the closed form of "
        "check_permission on the namespaces '', a, b, zz, thorough through the source of check_permission with an arbitrary namespace string; counterexamples and two sampled histories run on a real single-node application",
    ],
    "outside": "console handlers that address an entry by id only; the multipart import handlers (their namespace comes from a form / header; the zip import builds keys without the validity gate); mounted handlers that parse their body themselves (no typed namespace parameter); LDAP / OAuth2 users' groups; the session cache between two logins",
    "explanation": "bounded symbolic evaluation of the privilege algebra and the two index listing functions from the real source into SMT",
}

# ---------------------------------------------------------------------------------------------------
# Engine K properties on the raft file store
# ---------------------------------------------------------------------------------------------------
PRIV["c02"] = "raft::filestore::raftlog::verif_priv::proofs::%s"
RL = "src/raft/filestore/raftlog/mod.rs"
_K_ASSUME = [
    "std::backtrace::Backtrace::capture stubbed to Backtrace::disabled(); <anyhow::Error as Drop>::drop stubbed to a no-op (errors are leaked; no property observes them)",
    "tokio::fs::File is the in-memory simfs of /verif/shim (POSIX regular-file semantics, every call atomic and in program order) under cfg(kani); the native replay uses real files",
]
_C02_KERNELS = [
    H("c02", "k02_2_rewind_k1", "index of 2 entries: interval 1..=128, start < 2^40, byte delta 4..2^31 symbolic; every cut index inside the log",
      ["LogInnerManager::get_file_index_by_log_index"], t_quick=600),
    H("c02", "k02_2_rewind_k2", "index of 3 entries, same ranges", ["LogInnerManager::get_file_index_by_log_index"], t_quick=600),
    H("c02", "k02_2_rewind_k3", "index of 4 entries, same ranges", ["LogInnerManager::get_file_index_by_log_index"], tier="thorough", t_quick=900),
    H("c02", "k02_3_read_indexs_k2", "index area of 2 written entries (byte deltas 4..2^31 symbolic) in a 48-byte window, interval 1..=128",
      ["LogInnerManager::read_indexs", "write_varint64", "read_varint64_offset", "inner_sizeof_varint"], t_quick=600),
    H("c02", "k02_3_read_indexs_k3", "3 written entries", ["LogInnerManager::read_indexs"], tier="thorough", t_quick=900),
    H("c02", "k02_4_start_index_k3", "index of 4 entries, every requested start index < 2^41", ["LogInnerManager::get_start_index"], t_quick=600),
]
PROPS["C02"] = {
    "level": "model_checking",
    "files": [RL, "src/common/protobuf_utils.rs", "src/raft/filestore/model.rs"],
    "kani": _C02_KERNELS,
    "assumptions": _K_ASSUME + ["index entries are exactly what write() creates: one per index_interval records, byte delta >= 4, data file < 2 GB"],
    "outside": "multi-actor RaftLogManager / FileStore message flow; the file-level scenarios at the literal 4096 / 1024-byte scale (see DESIGN.md section 3)",
}
PROPS["C03"] = {
    "level": "model_checking",
    "files": [RL],
    "kani": [h for h in _C02_KERNELS if h.name.startswith("k02_2")],
    "assumptions": PROPS["C02"]["assumptions"],
    "outside": "RaftLogManager::strip_log_to_index file selection (needs actors); async-raft's conflict path",
}
PROPS["C19"] = {
    "level": "model_checking",
    "files": ["src/sequence/model.rs", "src/common/sequence_utils.rs", "src/sequence/mod.rs", "src/sequence/core.rs", "src/config/core.rs"],
    "kani": [
        H("c19", "k19_1_seqgroup_fifo", "every schedule of <=9 steps over {GetNextId, FillRange delivery, fetch completion in issue order}; step 1..=2; <=4 fetches",
          ["SeqGroup::{next_id,apply_range,need_apply,mark_apply,clear_apply_mark}", "SeqRange::{next_id,renew,has_next}"], t_quick=900),
        H("c19", "k19_3_simple_sequence_6", "every history of <=6 steps over {publish via leader, leader change, snapshot, restart with snapshot + log-suffix replay} on two replicas; batch 1..=3",
          ["SimpleSequence::{next_state,set_valid_last_id,set_last_id,get_end_id}"], t_quick=900),
        H("c19", "k19_3_simple_sequence_8", "every history of <=8 steps over the same operations (a node that led, then applied a later leader's mark, then leads again needs 7 steps to show a stale batch)",
          ["SimpleSequence::{next_state,set_valid_last_id,set_last_id,get_end_id}"], t_quick=1500, t_thorough=3600),
        H("c19", "k19_4_sections", "every start < 2^62, batch 1..=1000, section size <= 10^6", ["SimpleSequence::{next_id,next_section,get_end_id}"], t_quick=300),
    ],
    "assumptions": _K_ASSUME[:1] + [
        "SeqGroup is driven by the message protocol of SequenceManager::{handle,handle_result} (transcribed in the harness; the SeqGroup / SimpleSequence methods are the real ones)",
        "the Raft range allocator hands out disjoint increasing ranges in issue order (SequenceDbManager::next_range) and the fetches complete in issue order "
        "(one leader, one connection); with completions overtaking each other a smaller range can arrive late and ids go backwards: the solver finds that schedule "
        "(harness k19_1_seqgroup_any_order, kept in the source, not registered) but it is an assumption about the transport that cannot be replayed against real code",
        "config history ids: a publish is issued by the leader, committed, and applied on both replicas before the next step; leadership moves only between such steps",
    ],
    "outside": "fetch completions of one node out of issue order (whether the raft client can reorder them is an environment assumption); the raft transport between a node and the leader's table",
}
PROPS["C05"] = {
    "level": "model_checking",
    "files": ["src/raft/filestore/raftindex.rs", "src/common/byte_utils.rs", "src/raft/filestore/model.rs"],
    "kani": [
        H("c05", "k05_2_id_bin", "every u64", ["common::byte_utils::{id_to_bin,bin_to_id}"], t_quick=300),
        H("c05", "k05_1_hard_state_fresh", "fresh index file; term, vote, last-applied arbitrary u64; optional write_last_applied_log; one reopen",
          ["RaftIndexInnerManager::{init,write_index,write_last_applied_log,flush}", "RaftIndexDto<->RaftIndex codec", "FileMessageReader::read_next"], t_quick=1200),
        H("c05", "k05_1_hard_state_with_log", "same with one LogRange in the catalogue", ["RaftIndexInnerManager::*"], t_quick=1200),
    ],
    "assumptions": _K_ASSUME + ["std::hash::RandomState::new stubbed to fixed keys (node_addrs stays empty)"],
    "outside": "RaftIndexManager actor wrapper; membership / address maps with entries (HashMap inserts are out of Kani's reach here)",
}
PROPS["C01"] = {
    "level": "model_checking",
    "files": ["src/raft/filestore/raftsnapshot.rs", "src/raft/filestore/model.rs", "src/common/protobuf_utils.rs"],
    "kani": [
        H("c01", "k01_1_snapshot_fresh", "header (2 fields < 128) + one record with 1-byte key/value, arbitrary contents; fresh file",
          ["SnapshotWriter::{init,write_record,flush}", "SnapshotReader::{init,read_record,get_header}", "SnapshotRecordDto / SnapshotHeaderDto codecs"], t_quick=1200),
        H("c01", "k01_1_snapshot_leftover2", "same, after an earlier build left header + 2 records under the same name",
          ["SnapshotWriter::*", "SnapshotReader::*"], t_quick=1200),
    ],
    "assumptions": _K_ASSUME + ["std::hash::RandomState::new stubbed to fixed keys"],
    "outside": "the orchestration load_index -> load_snapshot -> load_log -> load_complete and the seven components' snapshot handlers (actors); this check covers the snapshot file format only",
}


def _c09(tier, seed):
    from rs2smt import c09
    return c09.run(tier, seed)


def _c19_smt(tier, seed):
    import os
    from rs2smt import c09, c19seq
    from rs2smt.common import native_scenarios
    res = c09.run(tier, seed, only_c19=True)
    ob = c19seq.run(tier, seed)
    if not os.environ.get("VERIF_NO_NATIVE"):
        if ob.get("verdict") == "violation" and (ob.get("counterexample") or {}).get("ops"):
            rr = native_scenarios("C19", "violation", ["sequence_table_history"], ob["message"], {"obligation": ob["harness"], "model": ob.get("counterexample"), "ops": ob["counterexample"]["ops"]})
            ob["replay_path"] = rr["path"]
            ob["replay"] = {"path": rr["path"], "outcome": rr["outcome"], "message": rr["message"]}
            if rr["outcome"] != "reproduced":
                ob.update({"verdict": "inconclusive", "message": "engine-S counterexample (%s) did not reproduce on a real SequenceDbManager actor (%s %s)" % (ob["message"], rr["outcome"], rr["message"])})
            else:
                ob["message"] = "%s [real SequenceDbManager actor: %s]" % (ob["message"], rr["message"][:300])
        elif ob.get("verdict") == "discharged":
            sample = [{"op": "range", "key": "ka", "step": 100}, {"op": "next", "key": "ka"}, {"op": "restart"}, {"op": "range", "key": "ka", "step": 7}, {"op": "next", "key": "kb"},
                      {"op": "set", "key": "kb", "value": 50}, {"op": "next", "key": "kb"}, {"op": "restart"}, {"op": "next", "key": "kb"}, {"op": "next", "key": "ka"}]
            nv = native_scenarios("C19", "validate", ["sequence_table_history"], "", {"ops": sample})
            res.setdefault("info", {})["translator_validation_sequence_table"] = {"outcome": nv["outcome"], "message": nv["message"], "path": nv["path"]}
            if nv["outcome"] != "passed":
                ob.update({"verdict": "inconclusive", "message": "the obligation is discharged but a real SequenceDbManager actor breaks it on a sampled history: %s" % nv["message"]})
    res["obligations"].append(ob)
    # the nodes' SequenceManagers in front of the table
    from rs2smt import c19mgr
    mob = c19mgr.run(tier, seed)
    if mob.get("verdict") == "violation" and not os.environ.get("VERIF_NO_NATIVE"):
        from lib import native
        path = native.write_replay("C19", "c19", "model", [], {"engine": "smt", "mode": "model-only", "obligation": mob["harness"], "message": mob["message"], "model": mob.get("counterexample")})
        mob["replay_path"] = path
        mob["replay"] = {"path": path, "outcome": "model-only", "message": "schedule of client requests, fetch completions and self-sent FillRange deliveries on two nodes (the native actor's mailbox order cannot be steered)"}
    res["obligations"].append(mob)
    return res


PROPS["C09"] = {
    "level": "model_checking",
    "files": ["src/config/core.rs", "src/config/config_index.rs", "src/config/model.rs"],
    "smt": _c09,
    "trusted_base": ["rs2smt parser + symbolic evaluator (/verif/rs2smt); container models: HashMap/BTreeMap = dict with concrete keys iterated in key order, "
                     "BTreeSet/HashSet = sorted list, Vec = list", "z3 5.1.0 (strings)"],
    "assumptions": [
        "get_md5(x) is modelled as the injective function 'md5:' ++ x (the md5 crate is outside the claim; md5 equality == content equality)",
        "listener / subscriber are notification sinks; clock reads are constants",
        "operations are applied through ConfigActor::set_config / del_config (what the ConfigRaftCmd handler calls after parsing the key); two keys in two tenants",
        "listings: every API entry point queries with Some(tenant); the tenant == None branch of TenantIndex::query_config_page is not part of the claim",
    ],
    "outside": "HTTP / gRPC parameter parsing other than the listing parameters and the keys the four gRPC config handlers build (s09_7: dataId / group kept, 'public' mapped to the empty tenant, arbitrary strings) (s09_6: get_config's search dispatch, build_search_param / build_like_search_param, the console's to_param); text size limits; "
               "the md5 function itself (the native replay uses the real one)",
    "explanation": "bounded symbolic execution of the config store's real source with arbitrary string contents",
}
PROPS["C19"]["smt"] = _c19_smt
PROPS["C19"]["assumptions"].append("s19_6: SequenceDbManager's handlers (NextId, NextRange, SetId, RemoveId, snapshot build / load) from source over every history of 4 (thorough: 5) committed requests on two keys, "
                                   "steps symbolic in 1..2^32; id_to_bin / bin_to_id_result the identity (k05_2_id_bin); requests of several nodes are one committed sequence (raft orders them)")
PROPS["C19"]["assumptions"].append("s19_7: Handler<SequenceRequest> (a ResponseActFuture: prologue at delivery, raft request + handle_result later) and SequenceManager::{do_next_id, async_handle, get_next_range, handle_result} from source on two nodes "
                                   "in front of the real SequenceDbManager handler; range step 2; every schedule of 7 (thorough: 9) steps over client requests, completions of a node's oldest outstanding fetch (per node in issue order, as K19.1) and deliveries of "
                                   "self-sent FillRange messages, then a drain closure (everything outstanding completes, 8 sequential requests per node); ids pairwise distinct, and on one node a request made after an answer gets a larger id")
PROPS["C19"]["assumptions"].append("s19_5: ConfigActor::set_config is evaluated from its source (rs2smt) over every history of 3 operations; a publish carrying a history table id must leave "
                                   "the replica's SimpleSequence at or above that id")


def _c10(tier, seed):
    from rs2smt import c10
    return c10.run(tier, seed)


PROPS["C10"] = {
    "level": "model_checking",
    "files": ["src/config/core.rs", "src/config/config_subscribe.rs"],
    "smt": _c10,
    "trusted_base": PROPS["C09"]["trusted_base"],
    "assumptions": [
        "oneshot senders and the gRPC connection manager are recording sinks (delivery through the HTTP long-poll task / BiStreamManage is outside)",
        "get_md5(x) = 'md5:' ++ x; the clock read by the 500 ms tick is non-decreasing; deadlines range over {0 (= answer now), 100, 200}, tick times over {50, 150, 250} "
        "(the time-ordered listener map needs concrete keys), held md5s and contents are arbitrary strings",
        "two long-poll listeners (one key / two keys), two gRPC clients, two config keys; every interleaving of 3 (quick) or 4 (thorough) actor messages, including "
        "ConfigCmd::SetTmpValue (the tmp value a node sets after forwarding a publish to the leader); while a key holds a tmp value its listeners are owed the notification by the raft apply",
    ],
    "outside": "the task that awaits the oneshot and writes the HTTP response; gRPC push transport; the 500 ms granularity of 'no later than its timeout'",
    "explanation": "bounded symbolic execution of the real listener / subscriber source",
}


def _c11(tier, seed):
    from rs2smt import c11
    return c11.run(tier, seed, which="C11")


def _c12(tier, seed):
    from rs2smt import c11
    return c11.run(tier, seed, which="C12")


def _c13(tier, seed):
    from rs2smt import c11
    return c11.run(tier, seed, which="C13")


_NAMING_ASSUME = [
    "one naming Service (src/naming/service.rs) with two addresses",
    "inner_mem_cache::TimeoutSet is evaluated from the dependency's own source (version pinned by Cargo.lock)",
    "client ids range over {'', c1, c2}; time stamps are chosen from a concrete grid (keys of the time-ordered maps must be concrete); instance flags are symbolic",
]
for _pid, _fn, _txt in (("C11", _c11, "bookkeeping invariants of one service after every step of every bounded history"),
                        ("C12", _c12, "query results and removal ownership at the level of one service"),
                        ("C13", _c13, "heartbeat expiry of one service: Service::time_check over the real TimeoutSet")):
    PROPS[_pid] = {
        "level": "model_checking",
        "files": ["src/naming/service.rs", "src/naming/model.rs"],
        "smt": _fn,
        "trusted_base": PROPS["C09"]["trusted_base"],
        "assumptions": list(_NAMING_ASSUME),
        "outside": "NamingActor parts other than the registration paths and the empty-service clean-up (index page queries, cluster sync origins and process ranges), gRPC connection manager",
        "explanation": "bounded symbolic execution of the real Service source: " + _txt,
    }
PROPS["C11"]["assumptions"].append("s11_3: NamingActor::{update_instance, remove_instance, create_empty_service, clear_empty_service, clear_one_empty_service, remove_empty_service} and NamespaceIndex / ServiceIndex "
                                   "from source on three services (namespaces n1, n1, n2), one address each; the clock is a model variable on the grid start + [0, 20, 45, 100, 200] s, service time-out 30 s; "
                                   "every register / deregister / console-removal step may stand behind a timer round at the next grid point (compound step: time passes between operations without costing a step); "
                                   "the native twin (harness/c11_core_priv.rs, inside naming::core) runs in scaled real time: 1 s of the grid = 20 ms, service time-out 600 ms")
for _pid in ("C11", "C12"):
    PROPS[_pid]["files"] = ["src/naming/service.rs", "src/naming/model.rs", "src/naming/core.rs", "src/naming/service_index.rs"]
    PROPS[_pid]["assumptions"].append("actor level (s11_2 / s12_2): NamingActor::{update_instance, remove_instance, remove_client_instance} are evaluated from source on one service with two "
                                      "addresses, connections c1 / c2, single node (no process range); subscriber / cluster notifications are sinks; get_hash_value is a constant")
PROPS["C05"]["assumptions"] = list(PROPS["C05"].get("assumptions", [])) + [
    "s05_4: a membership save is the uniform [1, 2] or the joint membership [1, 2, 3] -> [2, 3, 4] of a mid-change snapshot header; a save without a joint half keeps the stored one (what the handler does; "
    "r-nacos itself never produces a joint configuration), so joint saves come last in a history; members and members_after_consensus are both compared, in-process and after a restart"]
PROPS["C17"]["assumptions"] = list(PROPS["C17"].get("assumptions", [])) + [
    "s17_2: UserRole::new from source on an arbitrary role string outside {'0', '1', '2'} (length < 6), alone and next to the visitor role; str::parse on a symbolic string = optional '+' then digits "
    "(z3 str.to_int), integer width assumed u64"]
PROPS["C13"]["assumptions"].append("s13_expiry: the alphabet has the step 'HTTP-side write (beat / re-registration / console edit) to the registered address, handled by this node as the service's owner' "
                                   "(from_cluster 0, empty client id - what NamingActor::update_instance hands to Service::update_instance for an in-range service), at the time of the preceding step; "
                                   "'gRPC-connected' and 'owned by this node' in the tick oracle follow a reference of what the registrations said (an HTTP-side write to a gRPC-connected ephemeral instance leaves it gRPC-connected), not the stored flags")
PROPS["C13"]["assumptions"].append("health time-out 15, instance time-out 30, clock on the grid %s; removal is two-phase (the tick that finds an instance unhealthy and overdue queues it, the next tick removes it)" % "[0,5,14,16,29,31,46,62]")


def _c05(tier, seed):
    from rs2smt import c05
    return c05.run(tier, seed)


# C05 is decided by engine S: the Kani file-level harnesses (harness/c05.rs k05_1_*) exceed 20 minutes each because RaftIndexDto
# carries a HashMap (to_record_do iterates it, the conversions build and drop it); the same scenario functions remain the native
# replay targets. k05_2_id_bin (all u64) stays on engine K and backs the id_to_bin / bin_to_id model.
PROPS["C05"]["kani"] = [h for h in PROPS["C05"]["kani"] if h.name == "k05_2_id_bin"]
PROPS["C05"]["smt"] = _c05
PROPS["C05"]["trusted_base"] = ["rs2smt parser + evaluator; environment models of rs2smt/iomodel.py (quick_protobuf Writer/BytesReader primitives, in-memory tokio::fs, big-endian id codec)",
                                "Kani/CBMC for k05_2_id_bin", "z3 5.1.0"]
PROPS["C05"]["assumptions"] = [
    "quick_protobuf's Writer / BytesReader primitives and tokio::fs::File are modelled (rs2smt/iomodel.py); the generated message code of /repo (log.rs), the DTO conversions, "
    "FileMessageReader, read_varint64 and inner_sizeof_varint are evaluated from source",
    "term < 2^21, vote and log-range start < 2^14, last-applied < 2^59 (each symbolic integer forks on its varint size class; 0x0800000000000000 is the legacy header placeholder)",
    "s05_1: one or two hard-state writes, at most one log range, node_addrs / member lists empty",
    "s05_2: the RaftIndexManager actor's Handler<RaftIndexRequest> and write_* methods are evaluated from source; the actor future (async block .into_actor().map().wait()) "
    "is run to completion at the call (ctx.wait blocks the mailbox until it resolves); do_notify_membership is outside; requests range over SaveHardState(term < 2^14, vote < 2^7), "
    "SaveMember [1,2] with addresses, SaveMember [1] joint [1,3], AddNodeAddr 3, SaveLogs(one range), SaveLastAppliedLog(< 2^59)",
]
PROPS["C05"]["outside"] = "FileStore (RaftStorage) wrapper around the actor; crash points between the writes of the index file; concurrent senders' mailbox order (any order is a sequence: covered up to the bound)"


def _c01(tier, seed):
    from rs2smt import c01
    return c01.run(tier, seed)


# C01 is decided by engine S for the same reason as C05 (SnapshotHeaderDto carries a HashMap: the Kani harnesses of harness/c01.rs exceed
# 20 minutes); those scenario functions remain the native replay targets.
PROPS["C01"]["kani"] = []
PROPS["C01"]["smt"] = _c01
PROPS["C01"]["trusted_base"] = PROPS["C05"]["trusted_base"][:1] + ["z3 5.1.0"]
PROPS["C01"]["files"] = list(PROPS["C01"].get("files", [])) + ["src/raft/filestore/raftapply.rs"]
PROPS["C01"]["outside"] = "the snapshot records of the cache component (observation O-cache) and the log-replay handlers of the table / naming / sequence components (the sequence table's snapshot round trip is decided under C19 s19_6, the MCP component's under C07 s07_mcp_component_paths); the prost codecs of the record values; RaftLogManager's Load implementation"
PROPS["C01"]["assumptions"] = [
    "s01_2: the start-up chain of StateApplyManager is evaluated from source; index / snapshot / log managers and the data handler are recording sinks with symbolic answers "
    "(catalogue with 0, 1 or 2 snapshots - the older one ending at E0 < E -, last-applied index A arbitrary); actor futures run to completion at the call; three node scenarios on real store actors + "
    "state machine are run as validation on every run and as replay: compaction_then_restart, install_then_restart, two_compactions_then_restart (sequence NextId requests between two compactions, restart: the next id is that of the node that kept running)",
    "quick_protobuf Writer / BytesReader primitives and tokio::fs::File are modelled (rs2smt/iomodel.py: open without truncate keeps the old content); SnapshotWriter, SnapshotReader, "
    "the DTO conversions, the generated message code and MessageBufReader are evaluated from source",
    "one tree name, 1-byte keys and values (symbolic), header fields in 1..=127, member / address lists empty; 0 or 2 (thorough: 0..=3) records left by an earlier build of the same id",
    "s01_5: ConfigActor::{set_config, del_config, build_snapshot}, the ConfigValue <-> ConfigValueDO conversions, RaftDataHandler::load_snapshot (config and sequence trees) and the SetFullValue / InnerSetLastId arms "
    "are evaluated from source; ConfigValueDO::to_bytes / from_bytes are a copy (prost codec outside), id_to_bin / bin_to_id the identity (k05_2_id_bin), get_md5(x) = 'md5:' ++ x; histories of 3 (thorough: 4) "
    "publishes / removes on two keys, contents / descriptions arbitrary strings, types from {json, yaml, text}, operation times symbolic and increasing",
]


def _c02_smt(tier, seed):
    from rs2smt import c03
    return c03.run(tier, seed, which="C02")


def _c03_smt(tier, seed):
    from rs2smt import c03
    return c03.run(tier, seed, which="C03")


def _c04(tier, seed):
    from rs2smt import c03
    return c03.run(tier, seed, which="C04")


_LOG_S_ASSUME = [
    "file-level scenarios are evaluated from the source of LogInnerManager, the LogRecord message code, MessageBufReader, FileMessageReader and the varint trio over the environment "
    "models of rs2smt/iomodel.py (in-memory tokio::fs with POSIX regular-file semantics, quick_protobuf primitives, Cursor + binrw big-endian header)",
    "the index interval is read from the file header: the scenario patches it to 2 in a freshly initialised file (any value >= 1 is a valid file), so index boundaries occur within 3-4 records",
    "payload lengths 1-2; payload bytes symbolic in {1,2,3} in the append scenario, concrete and pairwise different in the truncation / crash scenarios",
    "the preallocated length is what init finds on disk: the append scenario places the preallocation boundary 5..25 bytes into the data area (real scale: 1 MiB steps); "
    "the file's first index is 0 or 1 (not a multiple of the interval)",
    "on every run sampled discharged paths are executed on the real LogInnerManager (harness/hist_log.rs): write results, visible entries and all file bytes must equal the encoding's",
]
PROPS["C02"]["smt"] = _c02_smt
PROPS["C02"]["assumptions"] = PROPS["C02"]["assumptions"] + _LOG_S_ASSUME
PROPS["C02"]["outside"] = "multi-actor RaftLogManager / FileStore message flow (rollover, split-off, compaction pointers); records larger than the 1024-byte scan buffer"
PROPS["C03"]["outside"] = "async-raft's conflict path itself; the mailboxes between the log manager and its file actors"
PROPS["C03"]["smt"] = _c03_smt
PROPS["C03"]["assumptions"] = PROPS["C03"]["assumptions"] + _LOG_S_ASSUME
PROPS["C04"] = {
    "level": "model_checking",
    "files": [RL, "src/common/protobuf_utils.rs"],
    "smt": _c04,
    "trusted_base": PROPS["C05"]["trusted_base"][:1] + ["z3 5.1.0"],
    "assumptions": _LOG_S_ASSUME + [
        "crash model of the property: process death with the OS surviving, every write / set_len call atomic and applied in program order; flush is a no-op",
        "one log file: after a crash behind any prefix of its file mutations the log reopens and shows the state of the last acknowledged operation or of the operation in flight",
        "s04_7: the append histories in a file whose preallocated length ends 5..25 bytes into the data area (a record ends before / exactly on / across it; at the real scale the file grows in 1 MiB steps), "
        "a crash behind every prefix of the file mutations (set_len growth, data write, index write), reopen; payload bytes concrete, first index 0",
        "creation of a new log file (s04_2): a crash behind any prefix of init's own mutations leaves a file that reopens as an empty log and accepts the first append",
        "raft index file (s04_3): creation, hard-state save, last-applied write, second save of another record length; a crash behind any prefix of the file's mutations: the file reopens and "
        "reports the last acknowledged (term, vote, last-applied) or the one in flight",
        "snapshot catalogue (s04_4): Handler<RaftSnapshotRequest> (CompleteSnapshot, InstallSnapshot) from source; std::fs::remove_file is applied at once, the SaveSnapshots message is the catalogue rewrite; "
        "catalogue of 0..=3 (thorough: 4) snapshots whose files exist + the completed file of the new one; a process death behind every prefix: the last catalogued snapshot file exists; Path::new(..).join(..) = base/name; "
        "validated on the real RaftIndexManager + RaftSnapshotManager with crash images for 2, 3 and 4 snapshots on every run",
        "compaction order (s04_5): FileStore::do_log_compaction -> BuildSnapshot handler -> do_build_snapshot from source with recording collaborators: records, Flush, CompleteSnapshot, then the pointer entry in the log",
    ],
    "outside": "the content of a snapshot file under a kill in the middle of its build (it is not catalogued before Flush: s04_5), the log manager's own catalogue updates (rollover, split-off) against the index file, "
               "a kill between CompleteSnapshot and the index actor's write (message in a mailbox)",
    "explanation": "bounded symbolic execution of the log file code with a symbolic crash point over the journal of file mutations",
}


def _c08(tier, seed):
    from rs2smt import c08
    return c08.run(tier, seed)


PROPS["C08"] = {
    "level": "model_checking",
    "files": ["src/raft/filestore/core.rs", "src/raft/filestore/raftapply.rs", "src/raft/filestore/raftsnapshot.rs", "src/raft/filestore/raftdata.rs", "src/raft/filestore/raftlog/mod.rs", "src/config/core.rs", "src/namespace/mod.rs", "src/raft/db/table.rs"],
    "smt": _c08,
    "trusted_base": PROPS["C09"]["trusted_base"],
    "assumptions": [
        "narrow: the receiving side of a snapshot installation inside one process - FileStore::finalize_snapshot_installation (the RaftStorage method async-raft calls when the last "
        "chunk has arrived) and Handler<StateApplyRequest> / StateApplyManager::apply_snapshot evaluated from source; index / snapshot / log managers and the data handler are recording sinks",
        "the installed snapshot has a 2-member header and 2 records; snapshot index / term / delete_through symbolic",
        "s08_3: FileStore::create_snapshot and the snapshot manager's NewSnapshotForLoad arm from source over the file model (O_APPEND / truncate with their POSIX meaning); the receiving raft core's chunk "
        "protocol is transcribed from async-raft-ext core/install_snapshot.rs (first chunk: create_snapshot + write; later chunk: seek when the offset differs, write; a restarted receiver begins again); "
        "leader stream of 3 chunks of 2 symbolic bytes; schedules: in order, one chunk resent, behind an interrupted transfer of 3 / 6 / 9 bytes",
        "counterexamples about the state reaching the state machine are replayed on a real node (real store actors + state-machine components, harness/hist_store.rs) through "
        "RaftStorage::{create_snapshot, finalize_snapshot_installation}",
        "s08_8_installation_empties_the_log: FileStore::finalize_snapshot_installation from source with delete_through = None, its log-manager messages dispatched into the real "
        "Handler<RaftLogManagerRequest> (split_off, save_new_snapshot_pointer, write, switch_new_log from source) over three catalogue shapes and every snapshot index 1..=20: one open file that starts at the "
        "snapshot index is left, it is the append target and got the pointer record, saved catalogue == memory; file actors are recording sinks that acknowledge a write; "
        "s08_2: for delete_through = None the contract of async-raft is 'all entries of the log are to be deleted' (storage.rs of async-raft-ext 0.6.3)",
        "s08_7_installation_interrupted: the write-order obligation of C04 (s04_6) read for C08 - behind every prefix of the installation's messages the log is only cut / re-based on the snapshot "
        "pointer once the snapshot catalogue names the snapshot (a follower killed inside an installation must not restart with a log that claims the snapshot's index and nothing behind it)",
        "s08_4 / s08_5 / s08_6: the content of the snapshot - the config component's, the namespace registry's and the user table's records written by the leader's build_snapshot and loaded by a fresh "
        "component through RaftDataHandler::load_snapshot / load_snapshot_record (the obligations s01_5, s01_3, s01_7 of C01, with their bounds and environment models)",
    ],
    "outside": "the sending side and the network transfer (async-raft, tonic), leader election and log replication around the installation, a lagging follower whose old state must be discarded",
    "explanation": "bounded symbolic execution of the snapshot-installation receiver; emission-sequence oracle",
}


def _c20_smt(tier, seed):
    from rs2smt import c20file
    t0 = __import__("time").time()
    ob = c20file.run(tier, seed)
    if ob.get("verdict") == "violation":
        from lib import native
        path = native.write_replay("C20", "c20", "model", [], {"engine": "smt", "mode": "model-only", "obligation": ob["harness"], "message": ob["message"], "model": ob.get("counterexample")})
        ob["replay_path"] = path
        ob["replay"] = {"path": path, "outcome": "model-only", "message": "record lengths and file tail for FileMessageReader"}
    info = {"files": c20file.FILES, "solver": "z3", "cmd": "python3-vt -m lib.main C20 (rs2smt/c20file.py, c20big.py)"}
    from rs2smt import c20big
    from rs2smt.common import native_scenarios
    import os
    bob = c20big.run(tier, seed)
    if not os.environ.get("VERIF_NO_NATIVE"):
        if bob.get("verdict") == "violation" and (bob.get("counterexample") or {}).get("value_lengths"):
            name = "snapshot_big_records_" + "_".join(str(x) for x in bob["counterexample"]["value_lengths"])
            rr = native_scenarios("C20", "violation", [name], bob["message"], {"obligation": bob["harness"], "model": bob.get("counterexample")})
            bob["replay_path"] = rr["path"]
            bob["replay"] = {"path": rr["path"], "outcome": rr["outcome"], "message": rr["message"]}
            if rr["outcome"] != "reproduced":
                bob.update({"verdict": "inconclusive", "message": "engine-S counterexample (%s) did not reproduce on the real SnapshotWriter / SnapshotReader (%s %s)" % (bob["message"], rr["outcome"], rr["message"])})
            else:
                bob["message"] = "%s [real SnapshotWriter / SnapshotReader: %s]" % (bob["message"], rr["message"][:300])
        elif bob.get("verdict") == "discharged":
            nv = native_scenarios("C20", "validate", ["snapshot_big_records_3_600_2100", "snapshot_big_records_100_1100_3", "snapshot_big_records_2100_2100_100"])
            info["translator_validation_real_scale"] = {"outcome": nv["outcome"], "message": nv["message"], "path": nv["path"]}
            if nv["outcome"] != "passed":
                bob.update({"verdict": "inconclusive", "message": "the obligation is discharged but the real SnapshotWriter / SnapshotReader do not round-trip a sampled snapshot: %s" % nv["message"]})
    from rs2smt import c20meta
    mob = c20meta.run(tier, seed)
    if not os.environ.get("VERIF_NO_NATIVE"):
        if mob.get("verdict") == "violation" and (mob.get("counterexample") or {}).get("value_lengths"):
            name = "metadata_file_" + "_".join(str(x) for x in mob["counterexample"]["value_lengths"])
            rr = native_scenarios("C20", "violation", [name], mob["message"], {"obligation": mob["harness"], "model": mob.get("counterexample")})
            mob["replay_path"] = rr["path"]
            mob["replay"] = {"path": rr["path"], "outcome": rr["outcome"], "message": rr["message"]}
            if rr["outcome"] != "reproduced":
                mob.update({"verdict": "inconclusive", "message": "engine-S counterexample (%s) did not reproduce on the real InstanceMetaRepository (%s %s)" % (mob["message"], rr["outcome"], rr["message"])})
            else:
                mob["message"] = "%s [real InstanceMetaRepository: %s]" % (mob["message"], rr["message"][:300])
        elif mob.get("verdict") == "violation":
            from lib import native
            path = native.write_replay("C20", "c20", "model", [], {"engine": "smt", "mode": "model-only", "obligation": mob["harness"], "message": mob["message"], "model": mob.get("counterexample")})
            mob["replay_path"] = path
            mob["replay"] = {"path": path, "outcome": "model-only", "message": "file-name lengths of the metadata file map"}
        elif mob.get("verdict") == "discharged":
            nv = native_scenarios("C20", "validate", ["metadata_file_3_300_700", "metadata_file_700_700_700", "metadata_file_300_3_1100", "metadata_file_3_3_3"])
            info["translator_validation_metadata_files"] = {"outcome": nv["outcome"], "message": nv["message"], "path": nv["path"]}
            if nv["outcome"] != "passed":
                mob.update({"verdict": "inconclusive", "message": "the obligation is discharged but the real InstanceMetaRepository does not round-trip a sampled file: %s" % nv["message"]})
    from rs2smt import c20transfer
    tob = c20transfer.run(tier, seed)
    if not os.environ.get("VERIF_NO_NATIVE"):
        if tob.get("verdict") == "violation":
            ls = (tob.get("counterexample") or {}).get("value_lengths") or [3, 200, 1100]
            ids_ = (tob.get("counterexample") or {}).get("by_id") or []
            rr = native_scenarios("C20", "violation", ["transfer_file_" + "_".join(str(x) for x in ls) + ("_ids" if ids_ and all(ids_) else "")], tob["message"], {"obligation": tob["harness"], "model": tob.get("counterexample")})
            tob["replay_path"] = rr["path"]
            if rr["outcome"] == "reproduced":
                tob["replay"] = {"path": rr["path"], "outcome": rr["outcome"], "message": rr["message"]}
                tob["message"] = "%s [real TransferWriter / TransferReader / TransferFileReader: %s]" % (tob["message"], rr["message"][:300])
            else:
                tob["replay"] = {"path": rr["path"], "outcome": "model-only", "message": "the native scenario names odd records by table id; it does not show this counterexample: %s" % rr["message"][:200]}
        elif tob.get("verdict") == "discharged":
            nv = native_scenarios("C20", "validate", ["transfer_file_3_200_1100", "transfer_file_1100_3_3", "transfer_file_200_1100_1100", "transfer_file_0_0_0_ids", "transfer_file_1100_0_0_ids"])
            info["translator_validation_transfer_files"] = {"outcome": nv["outcome"], "message": nv["message"], "path": nv["path"]}
            if nv["outcome"] != "passed":
                tob.update({"verdict": "inconclusive", "message": "the obligation is discharged but the real transfer writer / readers do not round-trip a sampled file: %s" % nv["message"]})
    info["wall_s"] = round(__import__("time").time() - t0, 1)
    return {"obligations": [ob, bob, mob, tob], "info": info}


PROPS["C20"]["smt"] = _c20_smt
PROPS["C20"]["assumptions"] = PROPS["C20"]["assumptions"] + [
    "s20_8: TransferWriter::{init, write_record}, TransferReader::{new, read_record}, TransferFileReader::{new, read_record_vec}, reader_transfer_record, the generated code of TransferHeader / TableNameMapEntity / TransferItem, "
    "MessageBufReader::new_with_data and FileMessageReader from source over the file model; Cursor + binrw for the 8-byte prefix and serde_json of the empty extend map are models; 3 records, table by name or id, value lengths from {0, 3, 200, 1100}",
    "s20_7: InstanceMetaRepository::{write_records_to_file, read_records_from_file, save_file_map, load_file_map}, the generated code of InstanceMetaDo / InstanceFileDo and MessageBufReader from source over "
    "the file model (File::create truncates, read returns at most the buffer's length, rename replaces); records files of 3 records with metadata value lengths from {3, 300, 700} (thorough: 4 records, also 1100 and 2100), "
    "file maps of 2..=4 services with file names of 32 / 500 / 700 bytes; a branch on a value byte counts as a decoding failure",
    "s20_6: SnapshotWriter / SnapshotReader / MessageBufReader at the source's own 1024-byte chunk and buffer sizes over the file model; snapshots of 3 records with value lengths from {3, 100, 600, 2100} "
    "(thorough: also 1100), every 4th value byte symbolic; a branch on a value byte counts as a decoding failure (lengths and tags were written from concrete numbers)",
    "s20_5: FileMessageReader is evaluated from source over the in-memory file model of rs2smt/iomodel.py (read returns the bytes that exist, read_exact fails on a short read); "
    "files of 2 (thorough: 3) records with body lengths from {1, 4, 8, 9, 12}, a prefix of 0 or 8 bytes, the end of the file or zero padding behind the records",
]
