"""Which obligations decide which property. Harness code: /verif/harness/*.rs (compiled into /repo's
crate by the cfg(kani)/cfg(rnacos_verif) hooks); SMT obligations: /verif/rs2smt."""

DEFAULT_TRUSTED = [
    "Kani 0.68.0 MIR->goto translation and CBMC 6.11.0 (cadical) as the deciding solver",
    "rustc (Kani's pinned nightly) front end; harness code under /verif/harness",
    "stubs listed in assumptions",
]

ROOT = "verif_harness::%s::proofs::%s"
PRIV = {
    # module name -> fully qualified path of the in-module hook (private items reachable)
}


class H:
    def __init__(self, module, name, bound, functions, tier="quick", t_quick=300, t_thorough=None,
                 optional_covers=(), unwindset=None, group="main"):
        self.module = module
        self.name = name
        self.bound = bound
        self.functions = functions
        self.tier = tier
        self.t_quick = t_quick
        self.t_thorough = t_thorough or max(t_quick * 4, 1200)
        self.optional_covers = set(optional_covers)
        # per-loop unwinding bounds {"<substring of function name>.<loop number>": bound}; the global bound of the
        # harness (#[kani::unwind]) applies to every other loop; unwinding assertions stay on for all of them
        self.unwindset = unwindset or {}
        # harnesses of one group share one cargo-kani invocation (and therefore one --unwindset)
        self.group = group

    def in_tier(self, tier):
        return self.tier == "quick" or tier == "thorough"

    def timeout(self, tier):
        return self.t_quick if tier == "quick" else self.t_thorough

    def fq(self):
        if self.module in PRIV:
            return PRIV[self.module] % self.name
        return ROOT % (self.module, self.name)


PU = "src/common/protobuf_utils.rs"

PROPS = {}

# buffer of 8 bytes, reads of 4, streams of 8: the capacity-expansion loop never iterates; bound 1 + its unwinding
# assertion proves that instead of unrolling 10 symbolic-size reallocations (measured: >14 GB vs 3 GB / 2 min)
NOGROW = {"MessageBufReader::append_next_buf.0": 1}
GROW = {"MessageBufReader::append_next_buf.0": 3}

PROPS["C20"] = {
    "level": "model_checking",
    "files": [PU],
    "kani": [
        H("c20", "k20_1a_size", "every u64 (full width); unwind 11 >= 10 seven-bit groups + 1",
          ["common::protobuf_utils::write_varint64", "common::protobuf_utils::inner_sizeof_varint"], t_quick=120),
        H("c20", "k20_1b_roundtrip", "every u64; unwind 11",
          ["common::protobuf_utils::write_varint64", "common::protobuf_utils::read_varint64"], t_quick=300),
        H("c20", "k20_1c_offset", "every u64, offset 3 in a 16-byte window padded with 0xff; unwind 11",
          ["common::protobuf_utils::write_varint64", "common::protobuf_utils::read_varint64_offset"], t_quick=300),
        H("c20", "k20_2_reader_window", "every content of a 10-byte window (the size read_len passes)",
          ["common::protobuf_utils::read_varint64"], t_quick=300),
        H("c20", "k20_3_drain_n8_c4_b8", "every well-formed 8-byte stream (record boundaries symbolic) read in 4-byte chunks into an 8-byte buffer; drain protocol",
          ["MessageBufReader::{new_with_data,append_next_buf,next_message_vec,is_empty}", "move_data_to_start", "copy_data"], t_quick=900,
          unwindset=NOGROW, group="nogrow", optional_covers=["is_empty() consulted with every delivered byte consumed"]),
        H("c20", "k20_4_logscan_n8_c4_b8", "same streams; log-scan protocol (is_empty() consulted after each drain)",
          ["MessageBufReader::{new_with_data,append_next_buf,next_message_vec,is_empty}"], t_quick=900, unwindset=NOGROW, group="nogrow"),
        H("c20", "k20_3_drain_n8_c4_b4", "8-byte streams, 4-byte chunks, 4-byte buffer (buffer growth and the start>=len edge exercised)",
          ["MessageBufReader::*", "capacity_expansion"], tier="thorough", t_quick=1800, t_thorough=3600, unwindset=GROW, group="grow"),
        H("c20", "k20_4_logscan_n8_c4_b4", "8-byte streams, 4-byte chunks, 4-byte buffer; log-scan protocol",
          ["MessageBufReader::*", "capacity_expansion"], tier="thorough", t_quick=1800, t_thorough=3600, unwindset=GROW, group="grow"),
        H("c20", "k20_3_drain_n9_c3_b4", "9-byte streams, 3-byte chunks, 4-byte buffer", ["MessageBufReader::*"], tier="thorough", t_quick=1800, t_thorough=3600, unwindset=GROW, group="grow"),
        H("c20", "k20_4_logscan_n9_c3_b4", "9-byte streams, 3-byte chunks, 4-byte buffer; log-scan protocol", ["MessageBufReader::*"], tier="thorough", t_quick=1800, t_thorough=3600, unwindset=GROW, group="grow"),
    ],
    "assumptions": [
        "std::backtrace::Backtrace::capture stubbed to Backtrace::disabled() (anyhow error construction otherwise walks getenv)",
        "streams are store-written: canonical length prefixes; records < 128 bytes (stream length bound), at most one truncated tail",
    ],
    "outside": "records larger than the stream bound; the literal 1024-byte buffer (the boundary logic is size-parametric and is "
               "decided for buffers of 4 and 8 bytes through the public small-buffer constructor)",
}

def _c14(tier, seed):
    from rs2smt import c14
    return c14.run(tier, seed)


PROPS["C14"] = {
    "level": "model_checking",
    "files": ["src/naming/cluster/node_manage.rs", "src/naming/cluster/model.rs"],
    "smt": _c14,
    "trusted_base": ["rs2smt: /verif/rs2smt/rsparse.py (parser for the Rust subset) and rseval.py (symbolic evaluator), validated on every run "
                     "against the native build of the same functions (s14_translator_validation)", "z3 5.1.0"],
    "assumptions": [
        "Addr<InnerNodeManage>::send(msg).await is modelled as the result of the real Handler<NodeManageRequest>::handle arm for msg on the actor's state (mailbox errors outside)",
        "DefaultHasher::finish() is an arbitrary u64 (all 2^64 values); Hash::hash is a no-op",
        "all live nodes share one view (same membership and liveness); the local node is alive in its own view",
        "integer casts between usize/u64 are identities (64-bit target)",
    ],
    "outside": "the 15 s liveness timer that flips node status; views that differ between nodes; cluster sizes above 5 (3 in the quick tier)",
    "explanation": "bounded symbolic execution of the real source (concrete cluster size, symbolic liveness and hash) + SMT",
}


def _c16(tier, seed):
    from rs2smt import c16
    return c16.run(tier, seed)


def _c17(tier, seed):
    from rs2smt import c17
    return c17.run(tier, seed)


_S_TRUSTED = ["rs2smt: /verif/rs2smt/rsparse.py (parser for the Rust subset), rseval.py (symbolic evaluator, lenient mode for decision skeletons), "
              "routes.py (actix builder calls modelled as data constructors), validated on every run against the native build (translator validation)",
              "z3 5.1.0 (strings + regular expressions)"]

PROPS["C16"] = {
    "level": "other",
    "files": ["src/openapi/middle/auth_middle.rs", "src/web_config.rs", "src/openapi/mod.rs", "src/grpc/handler/mod.rs"],
    "smt": _c16,
    "trusted_base": _S_TRUSTED,
    "assumptions": [
        "middleware wiring as in src/main.rs: the API port wraps app_config(..) in ApiCheckAuth (not re-derived)",
        "actix route matching: scope prefix ++ resource pattern, {x} = one non-empty segment, {x:re} = re, case sensitive, no path normalisation",
        "environment of the middleware: path, header/query/body token and session lookup are arbitrary (valid_token is an uninterpreted predicate on the token string); "
        "calls without a model (metrics, response building) are opaque and assumed not to forward the request",
        "gRPC: PayloadUtils::get_payload_type returns an arbitrary type string; RequestMeta fields arbitrary; cluster-internal types = constants named RAFT_* and NAMING_ROUTE_REQUEST",
    ],
    "outside": "token issuance and expiry (session cache), actix internals, how token_session / cluster_token_is_valid are computed",
    "explanation": "bounded symbolic evaluation of the real source text (routes, regexes, ignore lists, middleware and dispatcher bodies) into SMT "
                   "(strings/regular languages); every obligation is a language-inclusion or implication query decided by z3",
}
PROPS["C17"] = {
    "level": "other",
    "files": ["src/user/permission.rs", "src/console/middle/login_middle.rs", "src/console/api.rs", "src/web_config.rs"],
    "smt": _c17,
    "trusted_base": _S_TRUSTED,
    "assumptions": [
        "middleware wiring as in src/main.rs: the console port wraps console_config in CheckLogin",
        "API calls = registered routes under /rnacos/api/; login endpoints = the property's list (login, captcha, login config, OAuth2 callback, both API versions)",
        "a visitor's permitted non-GET routes are session handling and changing the own password (login/logout/oauth2 login/reset_password); everything else non-GET counts as a data change",
        "session lookup is an uninterpreted predicate on the token string; role permission inside the middleware is the result of UserRole::match_url_by_roles (analysed separately)",
    ],
    "outside": "session storage and expiry; per-handler checks inside the handlers",
    "explanation": "bounded symbolic evaluation of the real source text (route table, role tables, middleware body) into SMT; queries decided by z3",
}


def _c07(tier, seed):
    from rs2smt import c07
    return c07.run(tier, seed)


PROPS["C07"] = {
    "level": "translation_validation",
    "programs": 3,
    "files": ["src/raft/filestore/raftdata.rs", "src/raft/store/mod.rs"],
    "smt": _c07,
    "trusted_base": ["rs2smt parser + lenient symbolic evaluator (/verif/rs2smt)", "z3 5.1.0 (equality of first-order terms with uninterpreted symbols)"],
    "assumptions": [
        "payload fields of a request are uninterpreted; helper calls with identical source text (String::from_utf8_lossy, ConfigValueDO::from_bytes, into) are the same uninterpreted function in all three programs",
        "Addr::send / Addr::do_send are both 'emit message to that actor'; the difference in mode (awaiting the reply vs. fire-and-forget) is reported, not compared",
        "what the receiving actors do with equal messages is outside (equal messages to the same single-threaded actor in the same order give equal state)",
    ],
    "outside": "ordering between different actors' mailboxes on the follower path; StateApplyManager's last_applied bookkeeping; the actors' own handlers",
    "explanation": "three dispatch programs compared per request variant as first-order terms",
}


def _c18(tier, seed):
    from rs2smt import c18
    return c18.run(tier, seed)


PROPS["C18"] = {
    "level": "other",
    "files": ["src/common/model/privilege.rs", "src/namespace/mod.rs", "src/config/config_index.rs", "src/naming/service_index.rs"],
    "smt": _c18,
    "trusted_base": _S_TRUSTED,
    "assumptions": [
        "white/blacklists range over subsets of {'', public, a, b}; the namespace asked about is an arbitrary string",
        "the per-namespace sub-index of a listing returns keys of its own namespace (its own filters are outside)",
        "NOT claimed: that every console handler calls the check before acting (a missing call site is not a solver question)",
    ],
    "outside": "the ~30 console handlers' call sites; how the privilege group is stored on the user and copied into the session",
    "explanation": "bounded symbolic evaluation of the privilege algebra and the two index listing functions from the real source into SMT",
}
