"""Which obligations decide which property. Harness code: /verif/harness/*.rs (compiled into /repo's
crate by the cfg(kani)/cfg(rnacos_verif) hooks); SMT obligations: /verif/rs2smt."""

DEFAULT_TRUSTED = [
    "Kani 0.68.0 MIR->goto translation and CBMC 6.11.0 (cadical) as the deciding solver",
    "rustc (Kani's pinned nightly) front end; harness code under /verif/harness",
    "stubs listed in assumptions",
]

ROOT = "verif_harness::%s::proofs::%s"
PRIV = {
    # module name -> fully qualified path of the in-module hook (private items reachable)
}


class H:
    def __init__(self, module, name, bound, functions, tier="quick", t_quick=300, t_thorough=None,
                 optional_covers=()):
        self.module = module
        self.name = name
        self.bound = bound
        self.functions = functions
        self.tier = tier
        self.t_quick = t_quick
        self.t_thorough = t_thorough or max(t_quick * 4, 1200)
        self.optional_covers = set(optional_covers)

    def in_tier(self, tier):
        return self.tier == "quick" or tier == "thorough"

    def timeout(self, tier):
        return self.t_quick if tier == "quick" else self.t_thorough

    def fq(self):
        if self.module in PRIV:
            return PRIV[self.module] % self.name
        return ROOT % (self.module, self.name)


PU = "src/common/protobuf_utils.rs"

PROPS = {}

PROPS["C20"] = {
    "level": "model_checking",
    "files": [PU],
    "kani": [
        H("c20", "k20_1a_size", "every u64 (full width); unwind 11 >= 10 seven-bit groups + 1",
          ["common::protobuf_utils::write_varint64", "common::protobuf_utils::inner_sizeof_varint"], t_quick=120),
        H("c20", "k20_1b_roundtrip", "every u64; unwind 11",
          ["common::protobuf_utils::write_varint64", "common::protobuf_utils::read_varint64"], t_quick=300),
        H("c20", "k20_1c_offset", "every u64, offset 3 in a 16-byte window padded with 0xff; unwind 11",
          ["common::protobuf_utils::write_varint64", "common::protobuf_utils::read_varint64_offset"], t_quick=300),
        H("c20", "k20_2_reader_window", "every content of a 10-byte window (the size read_len passes)",
          ["common::protobuf_utils::read_varint64"], t_quick=300),
        H("c20", "k20_3_drain_small4", "every well-formed stream of <=10 bytes x every 3-way split; buffer 4 (growth exercised)",
          ["MessageBufReader::{new_with_data,append_next_buf,next_message_vec,is_empty}"], t_quick=900),
        H("c20", "k20_4_logscan_small4", "every well-formed stream of <=10 bytes x every 3-way split; buffer 4; log-scan protocol (is_empty after drain)",
          ["MessageBufReader::{new_with_data,append_next_buf,next_message_vec,is_empty}"], t_quick=900),
        H("c20", "k20_3_drain_small8", "streams <=12 bytes, buffer 8", ["MessageBufReader::*"], tier="thorough", t_quick=1800, t_thorough=3600),
        H("c20", "k20_4_logscan_small8", "streams <=12 bytes, buffer 8, log-scan protocol", ["MessageBufReader::*"], tier="thorough", t_quick=1800, t_thorough=3600),
    ],
    "assumptions": [
        "std::backtrace::Backtrace::capture stubbed to Backtrace::disabled() (anyhow error construction otherwise walks getenv)",
        "streams are store-written: canonical length prefixes; records < 128 bytes (stream length bound), at most one truncated tail",
    ],
    "outside": "records larger than the stream bound; the literal 1024-byte buffer (the boundary logic is size-parametric and is "
               "decided for buffers of 4 and 8 bytes through the public small-buffer constructor)",
}
