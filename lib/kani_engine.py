"""Engine K: run Kani/CBMC harnesses that live in /verif/harness over /repo's current working tree."""
import fcntl
import json
import os
import re
import shutil
import subprocess
import threading
import time

from . import shadow

TARGET = os.path.join(shadow.CACHE, "kani-target")
RESULT_DIR = os.path.join(TARGET, "result_output_dir")
LOCK = os.path.join(shadow.CACHE, "kani.lock")
# the -Z set is constant: changing it changes rustc flags and forces a rebuild of every dependency
ZFLAGS = ["-Z", "stubbing", "-Z", "unstable-options", "-Z", "concrete-playback"]
RSS_LIMIT_KB = int(os.environ.get("VERIF_CBMC_RSS_GB", "14")) * 1024 * 1024

CHECK_RE = re.compile(
    r"Check (\d+): ([^\n]+)\n\t - Status: (\w+)\n\t - Description: \"([^\n]*)\"\n\t - Location: ([^\n]*)")


class HarnessResult:
    def __init__(self, name):
        self.name = name
        self.status = "missing"  # success | failure | timeout | error | missing
        self.time_s = None
        self.n_checks = 0
        self.n_failed = 0
        self.n_unreachable = 0
        self.failed = []  # (check name, description, location)
        self.covers = {}  # description -> SATISFIED | UNSATISFIABLE | UNREACHABLE
        self.user_checks = 0  # reachable SUCCESS assertion checks located in /repo/src or /verif/harness
        self.repo_functions = set()
        self.unwind_failed = False
        self.raw_tail = ""

    def to_json(self):
        return {
            "harness": self.name, "status": self.status, "cbmc_time_s": self.time_s,
            "cbmc_checks": self.n_checks, "failed": [list(f) for f in self.failed[:5]],
            "unreachable": self.n_unreachable, "covers": self.covers,
            "reachable_assertions_in_repo_or_harness": self.user_checks,
            "repo_functions_with_checks": sorted(self.repo_functions)[:40],
        }


def _env():
    e = dict(os.environ)
    e["CARGO_NET_OFFLINE"] = "true"
    e.pop("RUSTFLAGS", None)
    e.pop("VERIF_CFGS", None)
    return e


def _preexec():
    # CBMC's symbolic execution recurses deeply on nested expressions: with the default 8 MB stack it dies with
    # SIGSEGV (status 139) on the reader harnesses; measured fine with an unlimited stack
    import resource
    try:
        resource.setrlimit(resource.RLIMIT_STACK, (resource.RLIM_INFINITY, resource.RLIM_INFINITY))
    except (ValueError, OSError):
        pass


def _watchdog(stop, killed):
    """kill any cbmc process whose RSS passes the limit (no swap on this box: one runaway SAT
    instance would otherwise take the whole run down). A killed harness is reported as error."""
    while not stop.is_set():
        try:
            out = subprocess.run(["ps", "-eo", "pid,rss,comm"], capture_output=True, text=True).stdout
            for line in out.splitlines()[1:]:
                parts = line.split()
                if len(parts) >= 3 and parts[2] in ("cbmc", "cadical", "kissat") and int(parts[1]) > RSS_LIMIT_KB:
                    try:
                        os.kill(int(parts[0]), 9)
                        killed.append(int(parts[0]))
                    except OSError:
                        pass
        except Exception:
            pass
        stop.wait(5)


def _prune_old_builds():
    d = os.path.join(TARGET, "kani", "x86_64-unknown-linux-gnu", "debug", "build", "rnacos")
    if os.path.isdir(d):
        # every distinct harness selection gets its own metadata directory (30-300 MB): keep the newest few
        xs = sorted(os.listdir(d), key=lambda x: os.path.getmtime(os.path.join(d, x)), reverse=True)
        for x in xs[4:]:
            shutil.rmtree(os.path.join(d, x), ignore_errors=True)
    if os.path.isdir(RESULT_DIR):
        shutil.rmtree(RESULT_DIR, ignore_errors=True)


def _resolve_unwindset(d, harnesses, unwindset, info):
    """per-loop unwinding bounds are given as {substring of the loop's function name + '.N': bound}; CBMC wants
    the mangled loop id, which contains the crate disambiguator: compile first (--only-codegen), list the loops
    of each harness' goto binary (cbmc --show-loops) and match."""
    cmd = ["cargo", "kani", "--target-dir", TARGET] + ZFLAGS
    for h in harnesses:
        cmd += ["--harness", h]
    cmd += ["--exact", "--only-codegen"]
    p = subprocess.run(cmd, cwd=d, env=_env(), capture_output=True, text=True, preexec_fn=_preexec)
    info["codegen_rc"] = p.returncode
    if p.returncode != 0:
        return None, p.stdout + "\n" + p.stderr
    bdir = os.path.join(TARGET, "kani", "x86_64-unknown-linux-gnu", "debug", "build", "rnacos")
    ids = {}
    import glob
    for h in harnesses:
        short = h.split("::")[-1]
        outs = [f for f in glob.glob(os.path.join(bdir, "*", "out", "*%s.out" % short)) if not f.endswith(".symtab.out")]
        outs = sorted(outs, key=os.path.getmtime, reverse=True)[:1]
        for f in outs:
            lp = subprocess.run(["cbmc", "--show-loops", f], capture_output=True, text=True).stdout
            for m in re.finditer(r"^Loop (\S+):\n\s+file (\S+) line (\d+) column \d+ function (.*)$", lp, re.M):
                lid, _file, _line, fn = m.groups()
                num = lid.rsplit(".", 1)[-1]
                for pat, bound in unwindset.items():
                    pfn, pnum = pat.rsplit(".", 1)
                    if pfn in fn and pnum == num:
                        ids[lid] = max(bound, ids.get(lid, 0))
    return ids, p.stdout + "\n" + p.stderr


def run(harnesses, timeout_s, jobs=8, extra=None, log_path=None, playback=False, unwindset=None, env_extra=None):
    """harnesses: list of fully qualified harness names. Returns (dict name -> HarnessResult, info)."""
    os.makedirs(shadow.CACHE, exist_ok=True)
    with open(LOCK, "w") as lk0:
        fcntl.flock(lk0, fcntl.LOCK_EX)
        shadow.ensure_tokio_shim()
        d = shadow.make_shadow("kani")
    cmd = ["cargo", "kani", "--target-dir", TARGET] + ZFLAGS
    for h in harnesses:
        cmd += ["--harness", h]
    cmd += ["--exact", "--harness-timeout", "%ds" % int(timeout_s)]
    if playback:
        cmd += ["--concrete-playback=print"]
    else:
        cmd += ["-j", str(max(1, min(jobs, len(harnesses)))), "--output-format", "terse", "--output-into-files"]
    if extra:
        cmd += extra
    info = {"cmd": " ".join(cmd), "cwd": d}
    t0 = time.time()
    with open(LOCK, "w") as lk:
        fcntl.flock(lk, fcntl.LOCK_EX)
        _prune_old_builds()
        if unwindset:
            ids, cout = _resolve_unwindset(d, harnesses, unwindset, info)
            if ids is None:
                # compile problem: let the main invocation report it
                pass
            elif ids:
                cmd += ["--cbmc-args", "--unwindset", ",".join("%s:%d" % (k, v) for k, v in sorted(ids.items()))]
                info["unwindset"] = ids
                info["cmd"] = " ".join(cmd)
        stop = threading.Event()
        killed = []
        wd = threading.Thread(target=_watchdog, args=(stop, killed), daemon=True)
        wd.start()
        try:
            env = _env()
            env.update(env_extra or {})
            p = subprocess.run(cmd, cwd=d, env=env, capture_output=True, text=True, preexec_fn=_preexec,
                               timeout=timeout_s * max(1, (len(harnesses) + jobs - 1) // jobs) + 1800)
            out = p.stdout + "\n" + p.stderr
            info["rc"] = p.returncode
        except subprocess.TimeoutExpired as e:
            out = (e.stdout or b"").decode("utf8", "replace") if isinstance(e.stdout, bytes) else (e.stdout or "")
            out += "\nVERIF: outer timeout"
            info["rc"] = -1
            subprocess.run(["pkill", "-9", "cbmc"])
        finally:
            stop.set()
        info["wall_s"] = round(time.time() - t0, 1)
        info["killed_for_memory"] = len(killed)
        if log_path:
            with open(log_path, "w") as f:
                f.write(out)
        m = re.search(r"^error(\[E\d+\])?:.*$", out, re.M)
        compile_failed = ("could not compile" in out) or ("error: Failed to match" in out) or \
            ("Kani Compiler Error" in out) or ("thread 'rustc' panicked" in out) or ("error: internal compiler error" in out)
        info["compile_failed"] = compile_failed
        if compile_failed:
            errs = re.findall(r"^error.*(?:\n(?!warning|error).*){0,12}", out, re.M)
            info["compile_errors"] = "\n".join(errs[:6])[:6000]
        results = {}
        if playback:
            for h in harnesses:
                results[h] = parse_result_text(h, out)
            info["playback_out"] = out
        else:
            for h in harnesses:
                path = os.path.join(RESULT_DIR, h)
                try:
                    txt = open(path, errors="replace").read()
                except FileNotFoundError:
                    txt = ""
                results[h] = parse_result_text(h, txt)
        info["kani_build_s"] = _build_time(out)
    return results, info


def _build_time(out):
    m = re.search(r"Finished `dev` profile.*in (?:(\d+)m )?([\d.]+)s", out)
    if not m:
        return None
    return (int(m.group(1)) * 60 if m.group(1) else 0) + float(m.group(2))


def parse_result_text(name, txt):
    r = HarnessResult(name)
    r.raw_tail = txt[-1500:]
    if not txt.strip():
        return r
    for m in CHECK_RE.finditer(txt):
        _num, cname, status, desc, loc = m.groups()
        desc = desc.strip('"')
        r.n_checks += 1
        is_cover = ".cover." in cname
        if is_cover:
            r.covers[desc] = status
            continue
        if status == "FAILURE" or status == "UNDETERMINED":
            r.failed.append((cname, desc, loc.strip()))
            if ".unwind." in cname:
                r.unwind_failed = True
        elif status == "UNREACHABLE":
            r.n_unreachable += 1
        elif status == "SUCCESS":
            if "repo/src/" in loc or "verif/harness/" in loc:
                r.user_checks += 1
                fm = re.search(r"in function (.*)$", loc)
                if fm and "repo/src/" in loc:
                    r.repo_functions.add(fm.group(1).strip())
    tm = re.search(r"Verification Time: ([\d.]+)s", txt)
    if tm:
        r.time_s = float(tm.group(1))
    if "VERIFICATION:- SUCCESSFUL" in txt:
        r.status = "success"
    elif "CBMC timed out" in txt:
        r.status = "timeout"
    elif "VERIFICATION:- FAILED" in txt:
        if r.failed:
            r.status = "failure"
        else:
            # CBMC crashed / was killed (memory) / unsupported construct reached
            r.status = "error"
    else:
        r.status = "error"
    r.n_failed = len(r.failed)
    return r


def parse_playback(out, want_desc=None):
    """Kani prints one unit test per failed check *and* per satisfied cover: `/// Check for `<kind>`: "<description>"` precedes
    each. Returns the values of the test for the failing assertion (matching want_desc when given; otherwise the first test
    that is not a cover)."""
    tests = []
    for m in re.finditer(r"/// Check for `([^`]*)`: \"([^\n]*)\"\n(?:(?!/// Check for)[\s\S])*?let concrete_vals: Vec<Vec<u8>> = vec!\[(.*?)\n\s*\];", out, re.S):
        kind, desc, body = m.group(1), m.group(2), m.group(3)
        vals = []
        for vm in re.finditer(r"vec!\[([0-9,\s]*)\]", body):
            b = vm.group(1).strip()
            vals.append([int(x) for x in b.split(",") if x.strip()] if b else [])
        tests.append((kind, desc.strip('"'), vals))
    if not tests:
        m = re.search(r"let concrete_vals: Vec<Vec<u8>> = vec!\[(.*?)\n\s*\];", out, re.S)
        if not m:
            return None
        vals = []
        for vm in re.finditer(r"vec!\[([0-9,\s]*)\]", m.group(1)):
            b = vm.group(1).strip()
            vals.append([int(x) for x in b.split(",") if x.strip()] if b else [])
        return vals
    if want_desc:
        for kind, desc, vals in tests:
            if kind != "cover" and desc == want_desc:
                return vals
    for kind, desc, vals in tests:
        if kind != "cover":
            return vals
    return None
