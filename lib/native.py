"""Native replay: the solver's counterexample is re-executed against the ordinary (non-Kani) build of
/repo's current tree (real tokio, real file system), through the same scenario function."""
import fcntl
import hashlib
import json
import os
import re
import subprocess
import time

from . import shadow

TARGET = os.path.join(shadow.CACHE, "native-target")
LOCK = os.path.join(shadow.CACHE, "native.lock")
REPLAYS = os.path.join(shadow.VERIF, "replays")


def _env(extra_cfgs=()):
    e = dict(os.environ)
    e["CARGO_NET_OFFLINE"] = "true"
    e["VERIF_CFGS"] = ",".join(("rnacos_verif",) + tuple(extra_cfgs))
    e.pop("RUSTFLAGS", None)
    e["CARGO_TARGET_DIR"] = TARGET
    return e


def build(log_path=None):
    """build the lib test binary with cfg(rnacos_verif); returns (path or None, output)"""
    d = shadow.make_shadow("native")
    os.makedirs(shadow.CACHE, exist_ok=True)
    with open(LOCK, "w") as lk:
        fcntl.flock(lk, fcntl.LOCK_EX)
        p = subprocess.run(["cargo", "test", "--lib", "--no-run", "--message-format=json"], cwd=d, env=_env(),
                           capture_output=True, text=True)
    exe = None
    for line in p.stdout.splitlines():
        if line.startswith("{"):
            try:
                j = json.loads(line)
            except ValueError:
                continue
            if j.get("reason") == "compiler-artifact" and j.get("executable") and j.get("target", {}).get("name") == "rnacos":
                exe = j["executable"]
    if log_path:
        with open(log_path, "w") as f:
            f.write(p.stderr)
    return exe, p.stderr


def write_replay(prop, module, harness, vals, extra=None):
    os.makedirs(REPLAYS, exist_ok=True)
    body = {"property": prop, "module": module, "harness": harness, "vals": vals}
    if extra:
        body.update(extra)
    h = hashlib.sha1(json.dumps(body, sort_keys=True).encode()).hexdigest()[:10]
    path = os.path.join(REPLAYS, "%s-%s-%s.json" % (prop, harness, h))
    with open(path, "w") as f:
        json.dump(body, f, indent=1)
    return path


def run_replay(exe, path, timeout=300):
    """returns dict: outcome in {reproduced, passed, assume_broken, unknown_harness, error}, message, tags"""
    e = dict(os.environ)
    e["VERIF_REPLAY"] = path
    e["RUST_BACKTRACE"] = "0"
    try:
        p = subprocess.run([exe, "verif_replay_entry", "--exact", "--nocapture", "--test-threads", "1",
                            "verif_harness::replay_entry::verif_replay_entry"],
                           capture_output=True, text=True, timeout=timeout, env=e)
    except subprocess.TimeoutExpired:
        return {"outcome": "error", "message": "native replay timed out", "tags": [], "output": ""}
    out = p.stdout + "\n" + p.stderr
    tags = re.findall(r"VERIF-TAG (\S+)", out)
    if "VERIF-REPLAY-PASSED" in out and p.returncode == 0:
        return {"outcome": "passed", "message": "", "tags": tags, "output": out[-3000:]}
    if "VERIF-REPLAY-ASSUME-BROKEN" in out:
        return {"outcome": "assume_broken", "message": "", "tags": tags, "output": out[-3000:]}
    if "VERIF-REPLAY-UNKNOWN-HARNESS" in out:
        return {"outcome": "unknown_harness", "message": "", "tags": tags, "output": out[-3000:]}
    m = re.search(r"VERIF-REPLAY-CHECK-FAILED: ([^\n]*)", out)
    if m:
        return {"outcome": "reproduced", "message": m.group(1).strip(), "tags": tags, "output": out[-3000:]}
    m = re.search(r"panicked at ([^\n]*)\n([^\n]*)", out)
    if m:
        return {"outcome": "reproduced", "message": "panic in real code: %s %s" % (m.group(1).strip(), m.group(2).strip()),
                "tags": tags, "output": out[-3000:]}
    return {"outcome": "error", "message": "native replay ended with rc=%s without verdict" % p.returncode, "tags": tags,
            "output": out[-3000:]}
