"""save_seed.py <seed-id> <property> <worktree> <what it needs> : copy a confirmed seeded change into /verif/seeded/<id>/"""
import json, os, shutil, sys
sid, prop, wt, needs = sys.argv[1:5]
d = os.path.join('/verif/seeded', sid)
os.makedirs(d, exist_ok=True)
shutil.copy(os.path.join(wt, 'seed_out/mutation.diff'), os.path.join(d, 'patch.diff'))
shutil.copy(os.path.join(wt, 'seed_out/demo.diff'), os.path.join(d, 'demo.diff'))
if os.path.exists(os.path.join(wt, 'seed_out/notes.md')):
    shutil.copy(os.path.join(wt, 'seed_out/notes.md'), os.path.join(d, 'notes.md'))
log = '/var/tmp/verif-work/vs-%s.log' % sid.split('-')[0].lower()
ran = open(log).read() if os.path.exists(log) else ''
meta = {"seed": sid, "property": prop, "needs_to_manifest": needs,
        "confirmed_by": "lib/verify_seed.sh in a scratch worktree: demo passes without the change, fails with it; `cargo test --lib --offline` with the change: same 36 passing tests, same single pre-existing failure",
        "verify_output": ran.strip().splitlines(), "detected_by": None}
json.dump(meta, open(os.path.join(d, 'meta.json'), 'w'), indent=1)
print("saved", d)
