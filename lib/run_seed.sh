#!/bin/bash
# run_seed.sh <seed-id> <property> [extra check args]: apply the seeded change to /repo, run the property's check, undo it.
SID="$1"; PROP="$2"; shift; shift
cd /repo || exit 2
if [ -n "$(git status --porcelain --untracked-files=no)" ]; then echo "/repo not clean"; exit 2; fi
git apply /verif/seeded/$SID/patch.diff || { echo "patch does not apply"; exit 2; }
cd /verif && VERIF_EVIDENCE_DIR=/var/tmp/verif-work/seed-evidence ./check $PROP "$@" > /var/tmp/verif-work/seedrun-$SID.log 2>&1; rc=$?
cd /repo && git checkout -- . 
echo "seed $SID property $PROP exit=$rc"
grep -E "VIOLATION|INCONCLUSIVE|KNOWN|obligation=|harness=|tier=" /var/tmp/verif-work/seedrun-$SID.log | cut -c1-260
