#!/bin/bash
# dev helper: run one harness filter with a time cap; prints the summary lines
H="$1"; T="${2:-300}"; shift; shift
ulimit -s unlimited
python3 /verif/lib/shadow.py kani >/dev/null
cd /var/tmp/verif-work/shadow-kani
start=$(date +%s)
CARGO_NET_OFFLINE=true timeout $T cargo kani --target-dir /verif/.cache/kani-target --harness "$H" "$@" > /var/tmp/verif-work/one-$$.log 2>&1
rc=$?
end=$(date +%s)
grep -E "^error|Checking harness|VERIFICATION|Verification Time|Failed Checks|SATISFIED|UNSATISFIABLE|UNREACHABLE|Complete -|Status: FAILURE|Status: UNDET|unwinding|panicked" /var/tmp/verif-work/one-$$.log | sort | uniq -c | sort -rn | head -${LINES_MAX:-40}
echo "rc=$rc wall=$((end-start))s log=/var/tmp/verif-work/one-$$.log"
pkill -P $$ cbmc 2>/dev/null
