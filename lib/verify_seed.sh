#!/bin/bash
# verify_seed.sh <worktree> <seed-id> <demo-filter>
# confirms: demo passes without the mutation, fails with it, and the existing lib tests are unchanged by the mutation
WT="$1"; ID="$2"; FILTER="$3"
cd "$WT" || exit 2
git checkout -q -- . ; git clean -qfd -e seed_out -e target
export CARGO_NET_OFFLINE=true
OUT=/var/tmp/verif-work/seed-$ID
mkdir -p $OUT
git apply seed_out/demo.diff || { echo "demo.diff does not apply"; exit 2; }
cargo test --lib --offline "$FILTER" > $OUT/demo-clean.log 2>&1; rc1=$?
git apply seed_out/mutation.diff || { echo "mutation.diff does not apply"; exit 2; }
cargo test --lib --offline "$FILTER" > $OUT/demo-mut.log 2>&1; rc2=$?
git checkout -q -- . ; git clean -qfd -e seed_out -e target
git apply seed_out/mutation.diff
cargo test --lib --offline > $OUT/suite-mut.log 2>&1; rc3=$?
git checkout -q -- . ; git clean -qfd -e seed_out -e target
echo "demo without mutation rc=$rc1: $(grep -E '^test result' $OUT/demo-clean.log | head -1)"
echo "demo with mutation    rc=$rc2: $(grep -E '^test result' $OUT/demo-mut.log | head -1)"
echo "suite with mutation   rc=$rc3: $(grep -E '^test result' $OUT/suite-mut.log | head -1)"
grep -E "^test .* FAILED" $OUT/suite-mut.log | head
