//! In-memory stand-in for `tokio::fs::File`, compiled only under `cfg(kani)`.
//! Every operation completes immediately; state lives in process-global tables.
use crate::fs::OpenOptions;
use crate::io::{AsyncRead, AsyncSeek, AsyncWrite, ReadBuf};
use std::fmt;
use std::fs::{File as StdFile, Permissions};
use std::io::{self, SeekFrom};
use std::path::Path;
use std::pin::Pin;
use std::task::{Context, Poll};

pub mod simfs {
    pub const MAX_FILES: usize = 3;
    pub const MAX_HANDLES: usize = 12;
    pub const CAP: usize = 6144;

    pub struct Slot {
        pub used: bool,
        pub name: [u8; 8],
        pub name_len: usize,
        /// logical length (may exceed CAP: bytes beyond `hw` read as zero)
        pub len: u64,
        pub data: [u8; CAP],
    }
    pub struct Handle {
        pub used: bool,
        pub slot: usize,
        pub pos: usize,
    }
    pub struct Fs {
        pub slots: [Slot; MAX_FILES],
        pub handles: [Handle; MAX_HANDLES],
        pub pos: [u64; MAX_HANDLES],
        pub next_handle: usize,
        pub next_pos: usize,
        /// number of mutating calls (write / set_len) performed so far
        pub mutations: u64,
        /// mutating calls beyond this count are dropped (crash point); u64::MAX = never
        pub crash_after: u64,
    }
    const EMPTY_SLOT: Slot = Slot {
        used: false,
        name: [0; 8],
        name_len: 0,
        len: 0,
        data: [0; CAP],
    };
    const EMPTY_HANDLE: Handle = Handle {
        used: false,
        slot: 0,
        pos: 0,
    };
    pub static mut FS: Fs = Fs {
        slots: [EMPTY_SLOT; MAX_FILES],
        handles: [EMPTY_HANDLE; MAX_HANDLES],
        pos: [0; MAX_HANDLES],
        next_handle: 0,
        next_pos: 0,
        mutations: 0,
        crash_after: u64::MAX,
    };

    #[allow(static_mut_refs)]
    pub fn fs() -> &'static mut Fs {
        unsafe { &mut FS }
    }

    pub fn find(path: &[u8]) -> Option<usize> {
        let fs = fs();
        let mut i = 0;
        while i < MAX_FILES {
            let s = &fs.slots[i];
            if s.used && s.name_len == path.len() {
                let mut eq = true;
                let mut j = 0;
                while j < s.name_len {
                    if s.name[j] != path[j] {
                        eq = false;
                    }
                    j += 1;
                }
                if eq {
                    return Some(i);
                }
            }
            i += 1;
        }
        None
    }

    pub fn create(path: &[u8]) -> usize {
        assert!(path.len() <= 8, "simfs: path too long");
        let fs = fs();
        let mut i = 0;
        while i < MAX_FILES {
            if !fs.slots[i].used {
                fs.slots[i].used = true;
                fs.slots[i].name_len = path.len();
                let mut j = 0;
                while j < path.len() {
                    fs.slots[i].name[j] = path[j];
                    j += 1;
                }
                fs.slots[i].len = 0;
                return i;
            }
            i += 1;
        }
        panic!("simfs: too many files");
    }

    pub fn file_len(path: &str) -> Option<u64> {
        find(path.as_bytes()).map(|i| fs().slots[i].len)
    }
    pub fn byte_at(path: &str, off: usize) -> u8 {
        let i = find(path.as_bytes()).unwrap();
        if off < CAP {
            fs().slots[i].data[off]
        } else {
            0
        }
    }
    pub fn set_byte(path: &str, off: usize, v: u8) {
        let i = match find(path.as_bytes()) {
            Some(i) => i,
            None => create(path.as_bytes()),
        };
        assert!(off < CAP);
        let s = &mut fs().slots[i];
        s.data[off] = v;
        if s.len < off as u64 + 1 {
            s.len = off as u64 + 1;
        }
    }
    pub fn set_file_len(path: &str, len: u64) {
        let i = match find(path.as_bytes()) {
            Some(i) => i,
            None => create(path.as_bytes()),
        };
        fs().slots[i].len = len;
    }
    pub fn set_crash_after(n: u64) {
        fs().crash_after = n;
    }
    pub fn mutations() -> u64 {
        fs().mutations
    }
}

use simfs::*;

pub struct File {
    hid: usize,
}

#[derive(Clone, Copy, Debug)]
pub struct Metadata {
    len: u64,
}
impl Metadata {
    pub fn len(&self) -> u64 {
        self.len
    }
    pub fn is_file(&self) -> bool {
        true
    }
    pub fn is_dir(&self) -> bool {
        false
    }
}

#[derive(Clone, Copy, Debug, Default)]
pub(crate) struct SimFlags {
    pub(crate) read: bool,
    pub(crate) write: bool,
    pub(crate) append: bool,
    pub(crate) truncate: bool,
    pub(crate) create: bool,
    pub(crate) create_new: bool,
}

fn new_handle(slot: usize, shared_pos: Option<usize>) -> File {
    let fs = fs();
    let hid = fs.next_handle;
    assert!(hid < MAX_HANDLES, "simfs: too many handles");
    fs.next_handle += 1;
    let pos = match shared_pos {
        Some(p) => p,
        None => {
            let p = fs.next_pos;
            fs.next_pos += 1;
            fs.pos[p] = 0;
            p
        }
    };
    fs.handles[hid] = Handle {
        used: true,
        slot,
        pos,
    };
    File { hid }
}

pub(crate) fn sim_open(path: &Path, flags: SimFlags) -> io::Result<File> {
    let p = path.as_os_str().as_encoded_bytes();
    let slot = match find(p) {
        Some(i) => {
            if flags.create_new {
                return Err(io::Error::from(io::ErrorKind::AlreadyExists));
            }
            if flags.truncate {
                fs().slots[i].len = 0;
                let mut k = 0;
                while k < CAP {
                    fs().slots[i].data[k] = 0;
                    k += 1;
                }
            }
            i
        }
        None => {
            if flags.create || flags.create_new {
                create(p)
            } else {
                return Err(io::Error::from(io::ErrorKind::NotFound));
            }
        }
    };
    Ok(new_handle(slot, None))
}

impl File {
    pub async fn open(path: impl AsRef<Path>) -> io::Result<File> {
        sim_open(
            path.as_ref(),
            SimFlags {
                read: true,
                ..Default::default()
            },
        )
    }
    pub async fn create(path: impl AsRef<Path>) -> io::Result<File> {
        sim_open(
            path.as_ref(),
            SimFlags {
                write: true,
                create: true,
                truncate: true,
                ..Default::default()
            },
        )
    }
    pub async fn create_new<P: AsRef<Path>>(path: P) -> std::io::Result<File> {
        sim_open(
            path.as_ref(),
            SimFlags {
                write: true,
                create_new: true,
                ..Default::default()
            },
        )
    }
    pub fn options() -> OpenOptions {
        OpenOptions::new()
    }
    pub fn from_std(_std: StdFile) -> File {
        panic!("simfs: from_std unsupported")
    }
    pub async fn sync_all(&self) -> io::Result<()> {
        Ok(())
    }
    pub async fn sync_data(&self) -> io::Result<()> {
        Ok(())
    }
    pub async fn set_len(&self, size: u64) -> io::Result<()> {
        let fs = fs();
        fs.mutations += 1;
        if fs.mutations > fs.crash_after {
            return Ok(());
        }
        let slot = fs.handles[self.hid].slot;
        let s = &mut fs.slots[slot];
        if size < s.len {
            // zero the cut-off tail that is stored
            let mut k = size as usize;
            while k < CAP && (k as u64) < s.len {
                s.data[k] = 0;
                k += 1;
            }
        }
        s.len = size;
        Ok(())
    }
    pub async fn metadata(&self) -> io::Result<Metadata> {
        let fs = fs();
        let slot = fs.handles[self.hid].slot;
        Ok(Metadata {
            len: fs.slots[slot].len,
        })
    }
    pub async fn try_clone(&self) -> io::Result<File> {
        let h = &fs().handles[self.hid];
        let (slot, pos) = (h.slot, h.pos);
        Ok(new_handle(slot, Some(pos)))
    }
    pub async fn into_std(self) -> StdFile {
        panic!("simfs: into_std unsupported")
    }
    pub fn try_into_std(self) -> Result<StdFile, Self> {
        Err(self)
    }
    pub async fn set_permissions(&self, _perm: Permissions) -> io::Result<()> {
        Ok(())
    }
    pub fn set_max_buf_size(&mut self, _max_buf_size: usize) {}
    pub fn max_buf_size(&self) -> usize {
        usize::MAX
    }
}

impl AsyncRead for File {
    fn poll_read(
        self: Pin<&mut Self>,
        _cx: &mut Context<'_>,
        dst: &mut ReadBuf<'_>,
    ) -> Poll<io::Result<()>> {
        let fs = fs();
        let h = &fs.handles[self.hid];
        let s = &fs.slots[h.slot];
        let pos = fs.pos[h.pos];
        if pos >= s.len {
            return Poll::Ready(Ok(()));
        }
        let avail = s.len - pos;
        let want = dst.remaining() as u64;
        let n = if want < avail { want } else { avail } as usize;
        let out = dst.initialize_unfilled_to(n);
        let mut k = 0;
        while k < n {
            let off = pos as usize + k;
            out[k] = if off < CAP { s.data[off] } else { 0 };
            k += 1;
        }
        dst.advance(n);
        fs.pos[h.pos] = pos + n as u64;
        Poll::Ready(Ok(()))
    }
}

impl AsyncSeek for File {
    fn start_seek(self: Pin<&mut Self>, pos: SeekFrom) -> io::Result<()> {
        let fs = fs();
        let h = &fs.handles[self.hid];
        let cur = fs.pos[h.pos];
        let len = fs.slots[h.slot].len;
        let np = match pos {
            SeekFrom::Start(p) => p,
            SeekFrom::Current(d) => (cur as i64 + d) as u64,
            SeekFrom::End(d) => (len as i64 + d) as u64,
        };
        fs.pos[h.pos] = np;
        Ok(())
    }
    fn poll_complete(self: Pin<&mut Self>, _cx: &mut Context<'_>) -> Poll<io::Result<u64>> {
        let fs = fs();
        let h = &fs.handles[self.hid];
        Poll::Ready(Ok(fs.pos[h.pos]))
    }
}

impl AsyncWrite for File {
    fn poll_write(
        self: Pin<&mut Self>,
        _cx: &mut Context<'_>,
        src: &[u8],
    ) -> Poll<Result<usize, io::Error>> {
        let fs = fs();
        fs.mutations += 1;
        let hp = fs.handles[self.hid].pos;
        let slot = fs.handles[self.hid].slot;
        let pos = fs.pos[hp];
        let n = src.len();
        if fs.mutations > fs.crash_after {
            fs.pos[hp] = pos + n as u64;
            return Poll::Ready(Ok(n));
        }
        let s = &mut fs.slots[slot];
        assert!(pos as usize + n <= CAP, "simfs: write beyond CAP");
        let mut k = 0;
        while k < n {
            s.data[pos as usize + k] = src[k];
            k += 1;
        }
        if s.len < pos + n as u64 {
            s.len = pos + n as u64;
        }
        fs.pos[hp] = pos + n as u64;
        Poll::Ready(Ok(n))
    }
    fn poll_flush(self: Pin<&mut Self>, _cx: &mut Context<'_>) -> Poll<Result<(), io::Error>> {
        Poll::Ready(Ok(()))
    }
    fn poll_shutdown(self: Pin<&mut Self>, _cx: &mut Context<'_>) -> Poll<Result<(), io::Error>> {
        Poll::Ready(Ok(()))
    }
}

impl From<StdFile> for File {
    fn from(_std: StdFile) -> Self {
        panic!("simfs: From<StdFile> unsupported")
    }
}

impl fmt::Debug for File {
    fn fmt(&self, fmt: &mut fmt::Formatter<'_>) -> fmt::Result {
        fmt.debug_struct("tokio::fs::File(sim)")
            .field("hid", &self.hid)
            .finish()
    }
}

#[cfg(unix)]
impl std::os::unix::io::AsRawFd for File {
    fn as_raw_fd(&self) -> std::os::unix::io::RawFd {
        panic!("simfs: as_raw_fd unsupported")
    }
}
#[cfg(unix)]
impl std::os::unix::io::AsFd for File {
    fn as_fd(&self) -> std::os::unix::io::BorrowedFd<'_> {
        panic!("simfs: as_fd unsupported")
    }
}
#[cfg(unix)]
impl std::os::unix::io::FromRawFd for File {
    unsafe fn from_raw_fd(_fd: std::os::unix::io::RawFd) -> Self {
        panic!("simfs: from_raw_fd unsupported")
    }
}
