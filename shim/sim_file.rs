//! In-memory stand-in for `tokio::fs::File`, compiled only under `cfg(kani)`.
//! Every operation completes immediately; state lives in process-global tables.
use crate::fs::OpenOptions;
use crate::io::{AsyncRead, AsyncSeek, AsyncWrite, ReadBuf};
use std::fmt;
use std::fs::{File as StdFile, Permissions};
use std::io::{self, SeekFrom};
use std::path::Path;
use std::pin::Pin;
use std::task::{Context, Poll};

pub mod simfs {
    //! Process-global in-memory file table. File contents live in small heap vectors whose
    //! capacity the harness chooses (CBMC only constant-propagates small arrays; a big static
    //! backing store makes every access two-way). The logical length may exceed the stored
    //! capacity (set_len(1 MB)): bytes beyond it read as zero and must never be written.
    pub const MAX_FILES: usize = 3;
    pub const MAX_HANDLES: usize = 16;

    pub struct Slot {
        pub used: bool,
        pub name: [u8; 8],
        pub name_len: usize,
        /// logical length
        pub len: u64,
        /// stored bytes [0, data.len())
        pub data: Vec<u8>,
        /// second stored extent [base1, base1 + data1.len()) (the log file's data area starts at 4096)
        pub base1: usize,
        pub data1: Vec<u8>,
    }
    pub struct Handle {
        pub used: bool,
        pub slot: usize,
        pub pos: usize,
    }
    pub struct Fs {
        pub cap: usize,
        pub base1: usize,
        pub cap1: usize,
        pub slots: Vec<Slot>,
        pub handles: Vec<Handle>,
        pub pos: Vec<u64>,
        /// number of mutating calls (write / set_len) performed so far
        pub mutations: u64,
        /// mutating calls beyond this count are dropped (crash point); u64::MAX = never
        pub crash_after: u64,
    }
    pub static mut FS: Option<Fs> = None;

    #[allow(static_mut_refs)]
    pub fn fs() -> &'static mut Fs {
        unsafe {
            if FS.is_none() {
                FS = Some(Fs {
                    cap: 64,
                    base1: 0,
                    cap1: 0,
                    slots: Vec::new(),
                    handles: Vec::new(),
                    pos: Vec::new(),
                    mutations: 0,
                    crash_after: u64::MAX,
                });
            }
            FS.as_mut().unwrap()
        }
    }

    /// forget everything and choose the per-file stored capacity
    #[allow(static_mut_refs)]
    pub fn reset(cap: usize) {
        unsafe {
            let old = FS.take();
            std::mem::forget(old);
        }
        fs().cap = cap;
    }

    /// like reset, with a second stored extent of cap1 bytes starting at base1 (base1 >= cap)
    pub fn reset2(cap: usize, base1: usize, cap1: usize) {
        reset(cap);
        fs().base1 = base1;
        fs().cap1 = cap1;
    }

    /// byte at an absolute offset (unstored offsets read as zero)
    pub fn slot_byte(s: &Slot, off: usize) -> u8 {
        if off < s.data.len() {
            s.data[off]
        } else if off >= s.base1 && off - s.base1 < s.data1.len() {
            s.data1[off - s.base1]
        } else {
            0
        }
    }

    pub fn find(path: &[u8]) -> Option<usize> {
        let fs = fs();
        let mut i = 0;
        while i < fs.slots.len() {
            let s = &fs.slots[i];
            if s.used && s.name_len == path.len() {
                let mut eq = true;
                let mut j = 0;
                while j < s.name_len {
                    if s.name[j] != path[j] {
                        eq = false;
                    }
                    j += 1;
                }
                if eq {
                    return Some(i);
                }
            }
            i += 1;
        }
        None
    }

    pub fn create(path: &[u8]) -> usize {
        assert!(path.len() <= 8, "simfs: path too long");
        let fs = fs();
        assert!(fs.slots.len() < MAX_FILES, "simfs: too many files");
        let mut name = [0u8; 8];
        let mut j = 0;
        while j < path.len() {
            name[j] = path[j];
            j += 1;
        }
        let (cap, base1, cap1) = (fs.cap, fs.base1, fs.cap1);
        fs.slots.push(Slot {
            used: true,
            name,
            name_len: path.len(),
            len: 0,
            data: vec![0u8; cap],
            base1,
            data1: vec![0u8; cap1],
        });
        fs.slots.len() - 1
    }

    pub fn file_len(path: &str) -> Option<u64> {
        find(path.as_bytes()).map(|i| fs().slots[i].len)
    }
    pub fn byte_at(path: &str, off: usize) -> u8 {
        let i = find(path.as_bytes()).unwrap();
        slot_byte(&fs().slots[i], off)
    }
    pub fn set_byte(path: &str, off: usize, v: u8) {
        let i = match find(path.as_bytes()) {
            Some(i) => i,
            None => create(path.as_bytes()),
        };
        let s = &mut fs().slots[i];
        if off < s.data.len() {
            s.data[off] = v;
        } else {
            assert!(off >= s.base1 && off - s.base1 < s.data1.len(), "simfs: set_byte beyond CAP");
            s.data1[off - s.base1] = v;
        }
        if s.len < off as u64 + 1 {
            s.len = off as u64 + 1;
        }
    }
    pub fn set_file_len(path: &str, len: u64) {
        let i = match find(path.as_bytes()) {
            Some(i) => i,
            None => create(path.as_bytes()),
        };
        fs().slots[i].len = len;
    }
    pub fn remove(path: &str) {
        if let Some(i) = find(path.as_bytes()) {
            fs().slots[i].used = false;
        }
    }
    pub fn set_crash_after(n: u64) {
        fs().crash_after = n;
    }
    pub fn mutations() -> u64 {
        fs().mutations
    }
}

use simfs::*;

pub struct File {
    hid: usize,
}

#[derive(Clone, Copy, Debug)]
pub struct Metadata {
    len: u64,
}
impl Metadata {
    pub fn len(&self) -> u64 {
        self.len
    }
    pub fn is_file(&self) -> bool {
        true
    }
    pub fn is_dir(&self) -> bool {
        false
    }
}

#[derive(Clone, Copy, Debug, Default)]
pub(crate) struct SimFlags {
    pub(crate) read: bool,
    pub(crate) write: bool,
    pub(crate) append: bool,
    pub(crate) truncate: bool,
    pub(crate) create: bool,
    pub(crate) create_new: bool,
}

fn new_handle(slot: usize, shared_pos: Option<usize>) -> File {
    let fs = fs();
    let hid = fs.handles.len();
    assert!(hid < MAX_HANDLES, "simfs: too many handles");
    let pos = match shared_pos {
        Some(p) => p,
        None => {
            fs.pos.push(0);
            fs.pos.len() - 1
        }
    };
    fs.handles.push(Handle {
        used: true,
        slot,
        pos,
    });
    File { hid }
}

pub(crate) fn sim_open(path: &Path, flags: SimFlags) -> io::Result<File> {
    let p = path.as_os_str().as_encoded_bytes();
    let slot = match find(p) {
        Some(i) => {
            if flags.create_new {
                return Err(io::Error::from(io::ErrorKind::AlreadyExists));
            }
            if flags.truncate {
                let (cap, cap1) = (fs().cap, fs().cap1);
                fs().slots[i].len = 0;
                let old = std::mem::replace(&mut fs().slots[i].data, vec![0u8; cap]);
                std::mem::forget(old);
                let old1 = std::mem::replace(&mut fs().slots[i].data1, vec![0u8; cap1]);
                std::mem::forget(old1);
            }
            i
        }
        None => {
            if flags.create || flags.create_new {
                create(p)
            } else {
                return Err(io::Error::from(io::ErrorKind::NotFound));
            }
        }
    };
    Ok(new_handle(slot, None))
}

impl File {
    pub async fn open(path: impl AsRef<Path>) -> io::Result<File> {
        sim_open(
            path.as_ref(),
            SimFlags {
                read: true,
                ..Default::default()
            },
        )
    }
    pub async fn create(path: impl AsRef<Path>) -> io::Result<File> {
        sim_open(
            path.as_ref(),
            SimFlags {
                write: true,
                create: true,
                truncate: true,
                ..Default::default()
            },
        )
    }
    pub async fn create_new<P: AsRef<Path>>(path: P) -> std::io::Result<File> {
        sim_open(
            path.as_ref(),
            SimFlags {
                write: true,
                create_new: true,
                ..Default::default()
            },
        )
    }
    pub fn options() -> OpenOptions {
        OpenOptions::new()
    }
    pub fn from_std(_std: StdFile) -> File {
        panic!("simfs: from_std unsupported")
    }
    pub async fn sync_all(&self) -> io::Result<()> {
        Ok(())
    }
    pub async fn sync_data(&self) -> io::Result<()> {
        Ok(())
    }
    pub async fn set_len(&self, size: u64) -> io::Result<()> {
        let fs = fs();
        fs.mutations += 1;
        if fs.mutations > fs.crash_after {
            return Ok(());
        }
        let slot = fs.handles[self.hid].slot;
        let s = &mut fs.slots[slot];
        if size < s.len {
            // zero the cut-off tail that is stored
            let cap = s.data.len();
            let from = if (size as usize) < cap { size as usize } else { cap };
            let to = if (s.len as usize) < cap { s.len as usize } else { cap };
            if from < to {
                s.data[from..to].fill(0);
            }
            let mut k = 0;
            while k < s.data1.len() {
                let off = (s.base1 + k) as u64;
                if off >= size && off < s.len {
                    s.data1[k] = 0;
                }
                k += 1;
            }
        }
        s.len = size;
        Ok(())
    }
    pub async fn metadata(&self) -> io::Result<Metadata> {
        let fs = fs();
        let slot = fs.handles[self.hid].slot;
        Ok(Metadata {
            len: fs.slots[slot].len,
        })
    }
    pub async fn try_clone(&self) -> io::Result<File> {
        let h = &fs().handles[self.hid];
        let (slot, pos) = (h.slot, h.pos);
        Ok(new_handle(slot, Some(pos)))
    }
    pub async fn into_std(self) -> StdFile {
        panic!("simfs: into_std unsupported")
    }
    pub fn try_into_std(self) -> Result<StdFile, Self> {
        Err(self)
    }
    pub async fn set_permissions(&self, _perm: Permissions) -> io::Result<()> {
        Ok(())
    }
    pub fn set_max_buf_size(&mut self, _max_buf_size: usize) {}
    pub fn max_buf_size(&self) -> usize {
        usize::MAX
    }
}

impl AsyncRead for File {
    fn poll_read(
        self: Pin<&mut Self>,
        _cx: &mut Context<'_>,
        dst: &mut ReadBuf<'_>,
    ) -> Poll<io::Result<()>> {
        let fs = fs();
        let h = &fs.handles[self.hid];
        let s = &fs.slots[h.slot];
        let pos = fs.pos[h.pos];
        if pos >= s.len {
            return Poll::Ready(Ok(()));
        }
        let avail = s.len - pos;
        let want = dst.remaining() as u64;
        let n = if want < avail { want } else { avail } as usize;
        let out = dst.initialize_unfilled_to(n);
        let p = pos as usize;
        // zero fill, then overlay the stored extents by slice copies (no per-byte loop over the caller's 1024 / 4096
        // byte buffers for the solver to unwind)
        out[..n].fill(0);
        let cap = s.data.len();
        if p < cap {
            let m = if p + n <= cap { n } else { cap - p };
            out[..m].copy_from_slice(&s.data[p..p + m]);
        }
        let (b1, c1) = (s.base1, s.data1.len());
        if c1 > 0 && p < b1 + c1 && p + n > b1 {
            let lo = if p > b1 { p } else { b1 };
            let hi = if p + n < b1 + c1 { p + n } else { b1 + c1 };
            out[lo - p..hi - p].copy_from_slice(&s.data1[lo - b1..hi - b1]);
        }
        dst.advance(n);
        fs.pos[h.pos] = pos + n as u64;
        Poll::Ready(Ok(()))
    }
}

impl AsyncSeek for File {
    fn start_seek(self: Pin<&mut Self>, pos: SeekFrom) -> io::Result<()> {
        let fs = fs();
        let h = &fs.handles[self.hid];
        let cur = fs.pos[h.pos];
        let len = fs.slots[h.slot].len;
        let np = match pos {
            SeekFrom::Start(p) => p,
            SeekFrom::Current(d) => (cur as i64 + d) as u64,
            SeekFrom::End(d) => (len as i64 + d) as u64,
        };
        fs.pos[h.pos] = np;
        Ok(())
    }
    fn poll_complete(self: Pin<&mut Self>, _cx: &mut Context<'_>) -> Poll<io::Result<u64>> {
        let fs = fs();
        let h = &fs.handles[self.hid];
        Poll::Ready(Ok(fs.pos[h.pos]))
    }
}

impl AsyncWrite for File {
    fn poll_write(
        self: Pin<&mut Self>,
        _cx: &mut Context<'_>,
        src: &[u8],
    ) -> Poll<Result<usize, io::Error>> {
        let fs = fs();
        fs.mutations += 1;
        let hp = fs.handles[self.hid].pos;
        let slot = fs.handles[self.hid].slot;
        let pos = fs.pos[hp];
        let n = src.len();
        if fs.mutations > fs.crash_after {
            fs.pos[hp] = pos + n as u64;
            return Poll::Ready(Ok(n));
        }
        let s = &mut fs.slots[slot];
        let p = pos as usize;
        if p + n <= s.data.len() {
            s.data[p..p + n].copy_from_slice(src);
        } else if p >= s.base1 && p + n <= s.base1 + s.data1.len() {
            let q = p - s.base1;
            s.data1[q..q + n].copy_from_slice(src);
        } else if p < s.data.len() {
            // a write that starts inside the first extent and runs past it (the 256-byte header block): the part
            // beyond the stored bytes must be zeros, which is what unstored offsets read as
            let m = s.data.len() - p;
            s.data[p..].copy_from_slice(&src[..m]);
            let mut k = m;
            while k < n {
                assert!(src[k] == 0, "simfs: non-zero byte written outside the stored extents");
                k += 1;
            }
        } else {
            panic!("simfs: write outside the stored extents");
        }
        if s.len < pos + n as u64 {
            s.len = pos + n as u64;
        }
        fs.pos[hp] = pos + n as u64;
        Poll::Ready(Ok(n))
    }
    fn poll_flush(self: Pin<&mut Self>, _cx: &mut Context<'_>) -> Poll<Result<(), io::Error>> {
        Poll::Ready(Ok(()))
    }
    fn poll_shutdown(self: Pin<&mut Self>, _cx: &mut Context<'_>) -> Poll<Result<(), io::Error>> {
        Poll::Ready(Ok(()))
    }
}

impl From<StdFile> for File {
    fn from(_std: StdFile) -> Self {
        panic!("simfs: From<StdFile> unsupported")
    }
}

impl fmt::Debug for File {
    fn fmt(&self, fmt: &mut fmt::Formatter<'_>) -> fmt::Result {
        fmt.debug_struct("tokio::fs::File(sim)")
            .field("hid", &self.hid)
            .finish()
    }
}

#[cfg(unix)]
impl std::os::unix::io::AsRawFd for File {
    fn as_raw_fd(&self) -> std::os::unix::io::RawFd {
        panic!("simfs: as_raw_fd unsupported")
    }
}
#[cfg(unix)]
impl std::os::unix::io::AsFd for File {
    fn as_fd(&self) -> std::os::unix::io::BorrowedFd<'_> {
        panic!("simfs: as_fd unsupported")
    }
}
#[cfg(unix)]
impl std::os::unix::io::FromRawFd for File {
    unsafe fn from_raw_fd(_fd: std::os::unix::io::RawFd) -> Self {
        panic!("simfs: from_raw_fd unsupported")
    }
}
