// Real-scale demonstration of finding S02-a (C02/C03): before the fix "end index after reopen: left 256, right 300", after it passes.
// Place as src/raft/filestore/raftlog/verif_scale_demo.rs + `#[cfg(test)] mod verif_scale_demo;` in raftlog/mod.rs.
use super::*;
#[tokio::test]
async fn scale_demo_truncate_across_index_boundary() {
    let dir = tempfile::tempdir().unwrap();
    let path = dir.path().join("log_1").to_string_lossy().into_owned();
    let mut m = LogInnerManager::init(path.clone(), 0, 0, 0).await.unwrap();
    for i in 0..200u64 {
        let rec = LogRecordDto { index: i, term: 1, value: vec![7u8; 150] };
        m.write(&rec).await.unwrap();
    }
    // follower conflict: drop everything from 100 (the index entry written at record 128 is popped)
    m.strip_log_to(100).await.unwrap();
    assert_eq!(m.get_end_index(), 100);
    for i in 100..300u64 {
        let rec = LogRecordDto { index: i, term: 2, value: vec![9u8; 150] };
        m.write(&rec).await.unwrap();
    }
    assert_eq!(m.get_end_index(), 300);
    let live = m.read_records(250, 260).await.unwrap();
    assert_eq!(live.len(), 10);
    drop(m);
    let mut m2 = LogInnerManager::init(path, 0, 0, 0).await.unwrap();
    assert_eq!(m2.get_end_index(), 300, "end index after reopen");
    let recs = m2.read_records(250, 260).await.unwrap();
    assert_eq!(recs.len(), 10, "records readable after reopen");
    for (k, r) in recs.iter().enumerate() {
        assert_eq!(r.index, 250 + k as u64, "record index after reopen");
        assert_eq!(r.term, 2);
    }
}
