// Native demonstration of finding S13-a (C13), run by hand before and after fix "an ephemeral instance that is already
// unhealthy ... is queued for removal": place as src/naming/verif_s13_demo.rs + `#[cfg(test)] mod verif_s13_demo;` in
// src/naming/mod.rs. Before the fix the assertion fails (instance still registered), after it passes.
use crate::naming::model::Instance;
use crate::naming::service::Service;
#[test]
fn s13_registered_unhealthy_never_expires() {
    let mut svc = Service::default();
    let mut ins = Instance::new("1.1.1.1".to_string(), 1);
    ins.ephemeral = true;
    ins.healthy = false;
    ins.enabled = true;
    ins.last_modified_millis = 0;
    svc.update_instance(ins, None, false, &None);
    svc.time_check(31 - 15, 31 - 30);
    svc.time_check(46 - 15, 46 - 30);
    svc.time_check(62 - 15, 62 - 30);
    assert_eq!(svc.instances.len(), 0, "silent unhealthy ephemeral instance still registered after three time checks");
}
