// Real-scale demonstration of finding S20-a (C20 / C02), run once by hand on the tree before fix 2 and after it:
// place as src/raft/filestore/raftlog/verif_scale_demo.rs + `#[cfg(test)] mod verif_scale_demo;` in raftlog/mod.rs.
// Before the fix: "entries lost on reopen: left 10, right 12"; after: passes.
use super::*;
fn enc_len(rec: &LogRecordDto) -> usize {
    let mut buf = Vec::new();
    let mut writer = Writer::new(&mut buf);
    writer.write_message(&rec.to_record_do()).unwrap();
    buf.len()
}
#[tokio::test]
async fn scale_demo_record_boundary_on_1024() {
    let dir = tempfile::tempdir().unwrap();
    let path = dir.path().join("log_1").to_string_lossy().into_owned();
    let mut m = LogInnerManager::init(path.clone(), 0, 0, 0).await.unwrap();
    let mut cum = 0usize;
    let mut i = 0u64;
    while cum < 1024 {
        let mut rec = LogRecordDto { index: i, term: 1, value: vec![7u8; 100] };
        let n = enc_len(&rec);
        if cum + n > 1024 - 10 {
            let mut l = 1;
            loop {
                rec.value = vec![7u8; l];
                if cum + enc_len(&rec) == 1024 { break; }
                assert!(l < 400);
                l += 1;
            }
        }
        cum += enc_len(&rec);
        m.write(&rec).await.unwrap();
        i += 1;
    }
    assert_eq!(cum, 1024);
    for _ in 0..2 {
        let rec = LogRecordDto { index: i, term: 1, value: vec![9u8; 5] };
        m.write(&rec).await.unwrap();
        i += 1;
    }
    let n = m.get_end_index();
    drop(m);
    let m2 = LogInnerManager::init(path, 0, 0, 0).await.unwrap();
    assert_eq!(m2.get_end_index(), n, "entries lost on reopen");
}
