// Native demonstration of finding S03-c (C03): before the fix "end index after reopen: left 5, right 3", after it passes.
// Place as src/raft/filestore/raftlog/verif_scale_demo.rs + `#[cfg(test)] mod verif_scale_demo;` in raftlog/mod.rs.
use super::*;
#[tokio::test]
async fn s03c_removed_suffix_comes_back_after_reopen() {
    let dir = tempfile::tempdir().unwrap();
    let path = dir.path().join("log_1").to_string_lossy().into_owned();
    let mut m = LogInnerManager::init(path.clone(), 0, 0, 0).await.unwrap();
    for i in 0..5u64 {
        m.write(&LogRecordDto { index: i, term: 1, value: vec![7u8; 10] }).await.unwrap();
    }
    // follower conflict: entries 2.. are replaced by one entry of the new leader (same payload size)
    m.strip_log_to(2).await.unwrap();
    m.write(&LogRecordDto { index: 2, term: 2, value: vec![9u8; 10] }).await.unwrap();
    assert_eq!(m.get_end_index(), 3);
    drop(m);
    let mut m2 = LogInnerManager::init(path, 0, 0, 0).await.unwrap();
    assert_eq!(m2.get_end_index(), 3, "end index after reopen (entries 3 and 4 were removed)");
    let recs = m2.read_records(0, 10).await.unwrap();
    assert_eq!(recs.len(), 3);
}
