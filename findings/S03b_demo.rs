// Native demonstration of finding S03-b (C03): before the fix both tests fail (end index stays 130 / 3), after it they pass.
// Place as src/raft/filestore/raftlog/verif_scale_demo.rs + `#[cfg(test)] mod verif_scale_demo;` in raftlog/mod.rs.
use super::*;
#[tokio::test]
async fn s03b_cut_on_index_entry_removes_nothing() {
    let dir = tempfile::tempdir().unwrap();
    let path = dir.path().join("log_1").to_string_lossy().into_owned();
    let mut m = LogInnerManager::init(path.clone(), 0, 0, 0).await.unwrap();
    for i in 0..130u64 {
        m.write(&LogRecordDto { index: i, term: 1, value: vec![7u8; 10] }).await.unwrap();
    }
    m.strip_log_to(128).await.unwrap();
    assert_eq!(m.get_end_index(), 128, "delete from 128");
}
#[tokio::test]
async fn s03b_delete_everything() {
    let dir = tempfile::tempdir().unwrap();
    let path = dir.path().join("log_1").to_string_lossy().into_owned();
    let mut m = LogInnerManager::init(path.clone(), 0, 0, 0).await.unwrap();
    for i in 0..3u64 {
        m.write(&LogRecordDto { index: i, term: 1, value: vec![7u8; 10] }).await.unwrap();
    }
    m.strip_log_to(0).await.unwrap();
    assert_eq!(m.get_end_index(), 0, "delete from 0");
}
