// Native demonstration of findings S13-b / S14-b (C13, C14): an ephemeral HTTP instance that was owned by a peer node stays
// registered for ever on the surviving node when the peer (and the instance's client) dies:
//  S14-b  InnerNodeManage::check_node_status recomputes its own owner range when a peer times out but does not tell the
//         NamingActor (refresh_process_range is only sent on membership changes), so the take-over never starts;
//  S13-b  Service::do_refresh_process_range re-arms the heartbeat time-out of taken-over instances, but Service::time_check
//         skips every instance whose from_cluster is not 0: the re-armed entry never expires anything.
// Before the fixes: the instance is still served (healthy) after the time-outs; after them it is marked unhealthy and removed.
// Place as src/naming/cluster/verif_s14b_demo.rs + `#[cfg(test)] #[path = "verif_s14b_demo.rs"] mod verif_s14b_demo;` at the
// end of src/naming/cluster/node_manage.rs (needs the module's private items).
use super::*;
use crate::naming::core::{NamingActor, NamingCmd, NamingResult};
use crate::naming::model::Instance;
use std::time::Duration;

fn peer_instance() -> Instance {
    let mut i = Instance::new("10.0.0.9".to_string(), 8080);
    i.ephemeral = true;
    i.healthy = true;
    i.enabled = true;
    i.weight = 1.0;
    i.cluster_name = "DEFAULT".to_string();
    i.namespace_id = Arc::new("public".to_string());
    i.group_name = Arc::new("DEFAULT_GROUP".to_string());
    i.service_name = Arc::new("svc".to_string());
    i.from_cluster = 2; // synced from node 2, which owns the service
    i
}

async fn lookup(naming: &Addr<NamingActor>) -> Option<Arc<Instance>> {
    match naming.send(NamingCmd::Query(peer_instance())).await.unwrap().unwrap() {
        NamingResult::Instance(i) => Some(i),
        _ => None,
    }
}

#[actix::test]
async fn http_instance_of_a_dead_peer_expires_on_the_survivor() {
    let mut actor = NamingActor::new();
    actor.sys_config.instance_health_timeout_millis = 1000;
    actor.sys_config.instance_timeout_millis = 2000;
    let naming = actor.start();
    // node 1 (local) and node 2, both alive
    let mut manage = InnerNodeManage::new(1);
    manage.naming_actor = Some(naming.clone());
    let now = now_millis();
    for (id, is_local) in [(1u64, true), (2u64, false)] {
        manage.all_nodes.insert(
            id,
            ClusterInnerNode {
                id,
                index: 0,
                is_local,
                addr: Arc::new(format!("127.0.0.1:{}", 9000 + id)),
                sync_sender: None,
                status: NodeStatus::Valid,
                last_active_time: now,
                client_set: Default::default(),
            },
        );
    }
    manage.update_nodes_index();
    manage.update_process_range();
    manage.refresh_process_range();
    // node 2 syncs one of its HTTP instances to node 1
    naming.send(NamingCmd::Update(peer_instance(), None)).await.unwrap().unwrap();
    let stored = lookup(&naming).await.expect("synced instance stored");
    assert_eq!(stored.from_cluster, 2);
    // node 2 dies (silent for more than 15 s); the timer of node 1 notices
    manage.all_nodes.get_mut(&2).unwrap().last_active_time = now_millis() - 20_000;
    manage.check_node_status();
    assert_eq!(manage.current_range, ProcessRange::new(0, 1), "node 1 owns every service now");
    // the instance's client is dead too: no heartbeat ever arrives. health time-out 1 s, instance time-out 2 s
    for _ in 0..8 {
        tokio::time::sleep(Duration::from_millis(600)).await;
        naming.send(NamingCmd::PeekListenerTimeout).await.unwrap().unwrap();
    }
    let after = lookup(&naming).await;
    assert!(
        after.is_none(),
        "4.8 s after the owner died the silent instance is still served: healthy={:?}",
        after.map(|i| i.healthy)
    );
}
