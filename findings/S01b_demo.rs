// Native demonstration of finding S01-b (C01): a node that received its state by snapshot installation and restarts before
// any later entry is applied (last-applied index still 0 on disk) loads the snapshot at start-up but never sends the
// load-complete notification: derived state (here the MCP server lookup by unique key) is not rebuilt.
// Before the fix: "mcp_by_key: None" after the restart while mcp_by_id is served; after it the test passes.
// Place as src/raft/filestore/verif_s01b_demo.rs + `#[cfg(test)] mod verif_s01b_demo;` in src/raft/filestore/mod.rs.
// (node boot / write helpers follow the wiring of starter::config_factory)
use std::sync::Arc;
use std::time::Duration;

use actix::prelude::*;
use async_raft_ext::raft::{Entry, EntryPayload};
use async_raft_ext::RaftStorage;
use bean_factory::{BeanDefinition, BeanFactory};

use crate::cache::core::DirectCacheManager;
use crate::config::core::{ConfigActor, ConfigCmd, ConfigKey, ConfigResult};
use crate::mcp::core::McpManager;
use crate::mcp::model::actor_model::{McpManagerRaftReq, McpManagerReq, McpManagerResult};
use crate::mcp::model::mcp::{McpServer, McpServerParam};
use crate::namespace::NamespaceActor;
use crate::naming::core::NamingActor;
use crate::raft::db::table::TableManager;
use crate::raft::filestore::core::FileStore;
use crate::raft::filestore::raftapply::{StateApplyManager, StateApplyRequest, StateApplyResponse};
use crate::raft::filestore::raftdata::RaftDataHandler;
use crate::raft::filestore::raftindex::{RaftIndexManager, RaftIndexRequest, RaftIndexResponse};
use crate::raft::filestore::raftlog::RaftLogManager;
use crate::raft::filestore::raftsnapshot::RaftSnapshotManager;
use crate::raft::store::ClientRequest;
use crate::sequence::core::SequenceDbManager;

const MCP_KEY: &str = "demo-unique-key";

/// One "process": the raft file store plus the state machine components it feeds.
struct Node {
    store: FileStore,
    index_manager: Addr<RaftIndexManager>,
    apply_manager: Addr<StateApplyManager>,
    config: Addr<ConfigActor>,
    mcp: Addr<McpManager>,
}

/// Boot a node on `dir` the way `starter::config_factory` wires it (the apply manager gets its
/// collaborators by injection and then runs load_index -> load_snapshot -> load_log -> load_complete).
async fn boot(dir: &std::path::Path) -> Node {
    let base_path = Arc::new(dir.to_string_lossy().into_owned());
    let index_manager = RaftIndexManager::new(base_path.clone()).start();
    let log_manager = RaftLogManager::new(base_path.clone(), Some(index_manager.clone())).start();
    let snapshot_manager =
        RaftSnapshotManager::new(base_path.clone(), Some(index_manager.clone())).start();
    let apply_manager = StateApplyManager::new().start();

    let config = ConfigActor::new().start();
    let mcp = McpManager::new().start();
    let data_wrap = Arc::new(RaftDataHandler {
        config: config.clone(),
        table: TableManager::new().start(),
        namespace: NamespaceActor::new(1).start(),
        sequence_db: SequenceDbManager::new().start(),
        mcp_manager: mcp.clone(),
        naming_actor: NamingActor::new().start(),
        direct_cache_manager: DirectCacheManager::new().start(),
    });

    let factory = BeanFactory::new();
    factory.register(BeanDefinition::actor_from_obj(index_manager.clone()));
    factory.register(BeanDefinition::actor_from_obj(log_manager.clone()));
    factory.register(BeanDefinition::actor_from_obj(snapshot_manager.clone()));
    factory.register(BeanDefinition::from_obj(data_wrap));
    factory.register(BeanDefinition::actor_with_inject_from_obj(
        apply_manager.clone(),
    ));
    factory.init().await;

    // the start-up chain runs inside `wait` futures of the apply manager: once it answers a
    // message, snapshot and log have been loaded
    let mut ready = false;
    for _ in 0..100 {
        if let Ok(Ok(StateApplyResponse::LastAppliedLog(_))) = apply_manager
            .send(StateApplyRequest::GetLastAppliedLog)
            .await
        {
            ready = true;
            break;
        }
        tokio::time::sleep(Duration::from_millis(20)).await;
    }
    assert!(ready, "apply manager did not finish its start-up");
    // let the LoadCompleted notifications (do_send) reach the components
    tokio::time::sleep(Duration::from_millis(100)).await;

    let store = FileStore::new(
        1,
        index_manager.clone(),
        snapshot_manager,
        log_manager,
        apply_manager.clone(),
    );
    Node {
        store,
        index_manager,
        apply_manager,
        config,
        mcp,
    }
}

/// Append one entry to the log and apply it, as the raft core does for a committed client write.
async fn write(node: &Node, index: u64, req: ClientRequest) {
    let entry = Entry {
        term: 1,
        index,
        payload: EntryPayload::Normal(async_raft_ext::raft::EntryNormal { data: req.clone() }),
    };
    node.store.append_entry_to_log(&entry).await.unwrap();
    node.store
        .apply_entry_to_state_machine(&index, &req)
        .await
        .unwrap();
}

fn config_set(data_id: &str, value: &str, history_id: u64) -> ClientRequest {
    ClientRequest::ConfigSet {
        key: ConfigKey::new(data_id, "DEFAULT_GROUP", "").build_key(),
        value: Arc::new(value.to_owned()),
        config_type: None,
        desc: None,
        history_id,
        history_table_id: if history_id == 1 { Some(100) } else { None },
        op_time: 1_700_000_000_000 + history_id as i64,
        op_user: None,
    }
}

fn mcp_add_server() -> ClientRequest {
    ClientRequest::McpReq {
        req: McpManagerRaftReq::AddServer(McpServerParam {
            id: 7,
            unique_key: Some(Arc::new(MCP_KEY.to_owned())),
            value_id: 1,
            op_user: Arc::new("admin".to_owned()),
            update_time: 1_700_000_000_000,
            namespace: Some(Arc::new("".to_owned())),
            name: Some(Arc::new("demo-server".to_owned())),
            description: Some(Arc::new("demo".to_owned())),
            auth_keys: Some(vec![Arc::new("k1".to_owned())]),
            ..Default::default()
        }),
    }
}

/// What the node serves for the things written by the histories below.
#[derive(Debug, PartialEq)]
struct Served {
    config_a: Option<(String, String)>,
    config_b: Option<(String, String)>,
    mcp_by_id: Option<(u64, String, String)>,
    mcp_by_key: Option<(u64, String, String)>,
}

async fn get_config(node: &Node, data_id: &str) -> Option<(String, String)> {
    match node
        .config
        .send(ConfigCmd::GET(ConfigKey::new(data_id, "DEFAULT_GROUP", "")))
        .await
        .unwrap()
        .unwrap()
    {
        ConfigResult::Data { value, md5, .. } => Some((value.to_string(), md5.to_string())),
        _ => None,
    }
}

fn server_view(v: Option<Arc<McpServer>>) -> Option<(u64, String, String)> {
    v.map(|s| (s.id, s.unique_key.to_string(), s.name.to_string()))
}

async fn served(node: &Node) -> Served {
    let by_id = match node.mcp.send(McpManagerReq::GetServer(7)).await.unwrap().unwrap() {
        McpManagerResult::ServerInfo(v) => server_view(v),
        _ => None,
    };
    let by_key = match node
        .mcp
        .send(McpManagerReq::GetServerByKey(Arc::new(MCP_KEY.to_owned())))
        .await
        .unwrap()
        .unwrap()
    {
        McpManagerResult::ServerInfo(v) => server_view(v),
        _ => None,
    };
    Served {
        config_a: get_config(node, "a.yaml").await,
        config_b: get_config(node, "b.yaml").await,
        mcp_by_id: by_id,
        mcp_by_key: by_key,
    }
}

/// Make sure everything the node acknowledged has reached its files, then copy the data directory
/// (the copy plays the role of the directory a new process finds; the lock file is left behind).
async fn stop_and_copy(node: &Node, from: &std::path::Path, to: &std::path::Path) -> (u64, u64) {
    // a hard-state save rewrites and flushes the index file behind every queued index update
    node.index_manager
        .send(RaftIndexRequest::SaveHardState {
            current_term: 1,
            voted_for: 1,
        })
        .await
        .unwrap()
        .unwrap();
    let (snapshot_end, last_applied) = match node
        .index_manager
        .send(RaftIndexRequest::LoadIndexInfo)
        .await
        .unwrap()
        .unwrap()
    {
        RaftIndexResponse::RaftIndexInfo {
            raft_index,
            last_applied_log,
        } => (
            raft_index.snapshots.last().map(|e| e.end_index).unwrap_or(0),
            last_applied_log,
        ),
        _ => panic!("unexpected index response"),
    };
    // log files are flushed by a 500ms timer
    tokio::time::sleep(Duration::from_millis(700)).await;
    let _ = node
        .apply_manager
        .send(StateApplyRequest::GetLastAppliedLog)
        .await;
    for item in std::fs::read_dir(from).unwrap() {
        let item = item.unwrap();
        let name = item.file_name();
        if name.to_string_lossy() == "db_lock" {
            continue;
        }
        std::fs::copy(item.path(), to.join(&name)).unwrap();
    }
    (snapshot_end, last_applied)
}


#[actix::test]
async fn s01b_state_installed_by_snapshot_survives_restart() {
    use tokio::io::{AsyncReadExt, AsyncWriteExt};
    let dir_leader = tempfile::tempdir().unwrap();
    let dir_follower = tempfile::tempdir().unwrap();
    let dir_restart = tempfile::tempdir().unwrap();
    // leader: three committed writes, then a compaction
    let leader = boot(dir_leader.path()).await;
    write(&leader, 1, config_set("a.yaml", "a: 1", 1)).await;
    write(&leader, 2, mcp_add_server()).await;
    write(&leader, 3, config_set("a.yaml", "a: 2", 2)).await;
    let mut snapshot = leader.store.do_log_compaction().await.unwrap();
    assert_eq!(snapshot.index, 3);
    let mut bytes = vec![];
    snapshot.snapshot.read_to_end(&mut bytes).await.unwrap();
    assert!(!bytes.is_empty());
    let on_leader = served(&leader).await;
    assert!(on_leader.mcp_by_key.is_some());
    // follower: fresh store, state arrives by snapshot installation (what async-raft does for a node behind the compacted log)
    let follower = boot(dir_follower.path()).await;
    let (id, mut file) = follower.store.create_snapshot().await.unwrap();
    file.write_all(&bytes).await.unwrap();
    file.flush().await.unwrap();
    follower
        .store
        .finalize_snapshot_installation(snapshot.index, snapshot.term, None, id, file)
        .await
        .unwrap();
    let (snapshot_end, last_applied) = stop_and_copy(&follower, dir_follower.path(), dir_restart.path()).await;
    assert_eq!(snapshot_end, 3);
    assert_eq!(last_applied, 0, "nothing was applied behind the installed snapshot");
    // the follower restarts
    let restarted = boot(dir_restart.path()).await;
    let after = served(&restarted).await;
    assert_eq!(after.config_a, on_leader.config_a, "config loaded from the installed snapshot");
    assert_eq!(after.mcp_by_id, on_leader.mcp_by_id, "mcp server loaded from the installed snapshot");
    assert_eq!(after.mcp_by_key, on_leader.mcp_by_key, "derived lookup rebuilt at load completion");
}
